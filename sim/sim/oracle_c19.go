package sim

import (
	"fmt"
	"math/big"
	"sort"
	"strings"

	sdk "github.com/cosmos/cosmos-sdk/types"
	reporterkeeper "github.com/tellor-io/layer/x/reporter/keeper"
	reportertypes "github.com/tellor-io/layer/x/reporter/types"
)

// OracleC19 — privileged changes need governance; messages touch only the signer's assets.
type OracleC19 struct {
	counters
	prevSpecs map[string]string
	prevTeam  string
	prevStake map[string]*stakeSnap // reporter -> bonded stake terms per selector at the end of the previous block
	prevSel   map[string]string     // selector -> reporter at the end of the previous block
	prevMin   map[string]*big.Int   // reporter -> its minimum bonded amount for selectors
	prevCap   uint64
	haveSel   bool
}

func NewOracleC19() *OracleC19 {
	return &OracleC19{counters: newCounters(), prevSpecs: map[string]string{}}
}
func (o *OracleC19) ID() string { return "C19" }

func (o *OracleC19) v(h int64, oracle, site, class, f string, a ...any) *Violation {
	return &Violation{Property: "C19", Oracle: oracle, Site: site, Class: class, Height: h, Msg: fmt.Sprintf(f, a...)}
}

var privileged = map[string]bool{"staking_update_params": true, "update_snapshot_limit": true, "mint_init": true, "update_cyclelist": true, "oracle_update_params": true, "reporter_update_params": true, "update_dataspec": true}

// Holdings is what a third party must not be able to reduce or change.
type Holdings struct {
	Liquid    *big.Int
	Delegated map[string]*big.Int // validator -> tokens
	Unbonding *big.Int
	Credit    *big.Rat
	Selection string // reporter selected (empty = none)
}

func holdingsOf(v *View, addr sdk.AccAddress) Holdings {
	h := Holdings{Liquid: v.Balance(addr).BigInt(), Delegated: map[string]*big.Int{}, Unbonding: new(big.Int), Credit: new(big.Rat)}
	for _, d := range v.Delegations(addr) {
		va, _ := sdk.ValAddressFromBech32(d.ValidatorAddress)
		if val, ok := v.Validator(va); ok {
			h.Delegated[d.ValidatorAddress] = val.TokensFromShares(d.Shares).TruncateInt().BigInt()
		}
	}
	ubds, _ := v.n.App.StakingKeeper.GetAllUnbondingDelegations(v.ctx, addr)
	for _, u := range ubds {
		for _, e := range u.Entries {
			h.Unbonding.Add(h.Unbonding, e.Balance.BigInt())
		}
	}
	if d, err := v.n.App.ReporterKeeper.SelectorTips.Get(v.ctx, addr); err == nil {
		h.Credit = decToRat(d)
	}
	if s, err := v.n.App.ReporterKeeper.Selectors.Get(v.ctx, addr); err == nil {
		h.Selection = string(s.Reporter)
	}
	return h
}

func (o *OracleC19) AfterBlock(c *Chain, b *BlockCtx) []*Violation {
	var out []*Violation
	v := c.ViewOf(b.Ref)
	curSpecs := map[string]string{}
	for _, s := range v.Specs() {
		curSpecs[s.Type] = s.Spec.String()
	}
	team := string(v.TeamAddr())
	defer func() { o.prevSpecs, o.prevTeam = curSpecs, team }()

	specUpdatedByGov := map[string]bool{}
	for _, e := range b.Res.Events {
		if e.Type == "data_spec_updated" {
			specUpdatedByGov[strings.ToLower(attr(e, "query_type"))] = true
		}
	}
	for i, tr := range b.Txs {
		in := c.IntentOfTx(b, i)
		if in == nil {
			continue
		}
		for mi := range in.Msgs {
			m := &in.Msgs[mi]
			// ---- privileged messages sent directly (not through a governance proposal) must be rejected
			if privileged[m.K] {
				o.count("direct_privileged_attempts")
				if tr.Code == 0 {
					out = append(out, o.v(b.H, "authority", m.K, "privileged-message-accepted-from-non-authority", "tx %d: %s signed by %s was accepted without governance", i, m.K, c.Accounts.Addr(in.Actor)))
				}
			}
			if m.K == "update_team" && tr.Code == 0 {
				o.count("team_updates")
				if o.prevTeam != "" && string(c.Accounts.Addr(in.Actor)) != o.prevTeam && !o.teamChangedEarlier(c, b, i) {
					out = append(out, o.v(b.H, "authority", "update_team", "team-changed-by-non-team", "tx %d: %s changed the team address, the team was %s", i, c.Accounts.Addr(in.Actor), sdk.AccAddress([]byte(o.prevTeam))))
				}
			}
			// ---- registered specs cannot be replaced by re-registration
			if m.K == "register_spec" {
				key := strings.ToLower(m.S)
				if before, had := o.prevSpecs[key]; had {
					o.count("re_registration_attempts")
					if curSpecs[key] != before && !specUpdatedByGov[key] {
						out = append(out, o.v(b.H, "registry", "RegisterSpec", "spec-replaced-by-re-registration", "tx %d: data spec %q changed after a RegisterSpec by %s", i, key, c.Accounts.Addr(in.Actor)))
					}
				}
			}
		}
	}
	// whatever the spelling of the re-registration: a registered spec only ever changes through a governance update
	nReg := 0
	for i, tr := range b.Txs {
		if in := c.IntentOfTx(b, i); in != nil && tr.Code == 0 && c.txHasKind(b, i, "register_spec") {
			nReg++
		}
	}
	for key, before := range o.prevSpecs {
		if now, still := curSpecs[key]; (!still || now != before) && !specUpdatedByGov[key] {
			cls := "registered-spec-changed"
			if nReg > 0 {
				cls = "spec-replaced-by-re-registration"
			}
			out = append(out, o.v(b.H, "registry", "SpecRegistry", cls, "data spec %q changed in block %d without a governance update (%d successful RegisterSpec in the block)", key, b.H, nReg))
		}
	}

	// ---- somebody else's reporter selection is removed only under the stated exception: the selector fell below the
	// minimum of a full reporter (judged on the state the block's transactions started from)
	curStake, curSel := bondedStakeSnapshot(v)
	curMin := map[string]*big.Int{}
	for _, r := range v.Reporters() {
		curMin[string(r.Addr)] = r.Rec.MinTokensRequired.BigInt()
	}
	rp, _ := b.Ref.App.ReporterKeeper.Params.Get(v.ctx)
	pStake, pSel, pMin, pCap, have := o.prevStake, o.prevSel, o.prevMin, o.prevCap, o.haveSel
	defer func() {
		o.prevStake, o.prevSel, o.prevMin, o.prevCap, o.haveSel = curStake, curSel, curMin, rp.MaxSelectors, true
	}()
	if have {
		firstStake := len(b.Txs) * 100
		for i, tr := range b.Txs {
			in := c.IntentOfTx(b, i)
			if in == nil || tr.Code != 0 {
				continue
			}
			for mi, m := range in.Msgs {
				if stakeKinds[m.K] && m.K != "remove_selector" && i*100+mi < firstStake {
					firstStake = i*100 + mi
				}
			}
		}
		for i, tr := range b.Txs {
			in := c.IntentOfTx(b, i)
			if in == nil || tr.Code != 0 {
				continue
			}
			for mi := range in.Msgs {
				m := &in.Msgs[mi]
				if m.K != "remove_selector" || i*100+mi > firstStake {
					continue
				}
				sel := c.Accounts.Addr(m.T)
				signer := c.Accounts.Addr(in.Actor)
				rep, had := pSel[string(sel)]
				if !had || string(signer) == string(sel) {
					continue
				}
				if _, still := curSel[string(sel)]; still {
					continue
				}
				o.count("third_party_selector_removals")
				stake := new(big.Int)
				if sn := pStake[rep]; sn != nil {
					for _, t := range sn.terms {
						if t.Selector == string(sel) {
							stake.Add(stake, t.Tokens)
						}
					}
				}
				n := 0
				for _, r2 := range pSel {
					if r2 == rep {
						n++
					}
				}
				min := pMin[rep]
				if min == nil {
					continue
				}
				belowMin := stake.Cmp(min) < 0
				full := uint64(n) >= pCap
				if !belowMin || !full {
					out = append(out, o.v(b.H, "third-party", "remove_selector", "selection-removed-outside-the-exception", "tx %d: %s removed the reporter selection of %s (bonded stake %s, the reporter's minimum is %s; the reporter had %d selectors, cap %d): only a selector below the minimum of a full reporter may be removed by others", i, signer, sel, stake, min, n, pCap))
				}
			}
		}
	}

	// ---- removal probe on a counterfactual branch: governance lowers the selector cap to 0 (Params.Validate accepts it, so
	// the state is reachable), which makes every reporter "full"; then an unrelated address asks the real message server to
	// remove every selection in turn (a branch per call). Whatever the history, the removal may only go through for a selector
	// whose stake with bonded validators — recomputed here from the staking module's state — is below the reporter's minimum.
	{
		ms := reporterkeeper.NewMsgServerImpl(b.Ref.App.ReporterKeeper)
		cf, _ := v.ctx.CacheContext()
		lowered := rp
		lowered.MaxSelectors = 0
		if err := b.Ref.App.ReporterKeeper.Params.Set(cf, lowered); err == nil {
			stranger := sdk.AccAddress([]byte("c19-removal-probe---"))
			for _, s := range v.Selectors() {
				rep := string(s.Reporter)
				min := curMin[rep]
				if min == nil {
					continue
				}
				stake := new(big.Int)
				nDel, nUnbonded := 0, 0
				if sn := curStake[rep]; sn != nil {
					for _, t := range sn.terms {
						if t.Selector == string(s.Addr) {
							stake.Add(stake, t.Tokens)
						}
					}
				}
				for _, d := range v.Delegations(s.Addr) {
					nDel++
					va, _ := sdk.ValAddressFromBech32(d.ValidatorAddress)
					if val, ok := v.Validator(va); ok && !val.IsBonded() {
						nUnbonded++
					}
				}
				branch, _ := cf.CacheContext()
				err := probeMsg(branch, func(x sdk.Context) error {
					_, e := ms.RemoveSelector(x, &reportertypes.MsgRemoveSelector{AnyAddress: stranger.String(), SelectorAddress: s.Addr.String()})
					return e
				})
				o.count("removal_probe_calls")
				if nDel > 1 && nUnbonded > 0 {
					o.count("removal_probe_selector_with_several_delegations_one_not_bonded")
				}
				if err == nil {
					o.count("removal_probe_removed")
					if stake.Cmp(min) >= 0 {
						out = append(out, o.v(b.H, "third-party", "remove_selector", "selection-removed-outside-the-exception:removal-probe", "with the selector cap lowered to 0 an unrelated address can remove the reporter selection of %s (stake with bonded validators %s in %d delegations, %d of them with validators that are not bonded; the reporter's minimum is %s): only a selector below the minimum may be removed by others", s.Addr, stake, nDel, nUnbonded, min))
						break
					}
				} else if stake.Cmp(min) < 0 {
					o.count("removal_probe_refused_below_minimum")
				}
			}
		}
	}

	// ---- counterfactual fork: effect of one transaction on everybody else
	if b.Fork != nil {
		out = append(out, o.forkCheck(c, b, v)...)
	}
	return out
}

func (o *OracleC19) teamChangedEarlier(c *Chain, b *BlockCtx, before int) bool {
	for i := 0; i < before; i++ {
		in := c.IntentOfTx(b, i)
		if in == nil || b.Txs[i].Code != 0 {
			continue
		}
		for _, m := range in.Msgs {
			if m.K == "update_team" {
				return true
			}
		}
	}
	return false
}

func (o *OracleC19) forkCheck(c *Chain, b *BlockCtx, with *View) []*Violation {
	var out []*Violation
	f := b.Fork
	in := c.IntentOfTx(b, f.TxIdx)
	if in == nil || b.Txs[f.TxIdx].Code != 0 {
		return nil
	}
	without := f.Without
	signer := c.Accounts.Addr(in.Actor)
	o.count("forks_evaluated")
	o.count("forks_" + in.Msgs[0].K)

	// stated exceptions, recognised from the message and the pre-state
	exempt := map[string]string{}
	for mi := range in.Msgs {
		m := &in.Msgs[mi]
		switch m.K {
		case "propose_dispute", "add_fee":
			// (a) a funded dispute's consequences for the disputed reporter and its backers
			for _, d := range with.Disputes() {
				wo := false
				for _, d2 := range without.Disputes() {
					if d2.D.DisputeId == d.D.DisputeId && d2.D.DisputeStatus == d.D.DisputeStatus {
						wo = true
					}
				}
				if wo {
					continue
				}
				rep, err := sdk.AccAddressFromBech32(d.D.InitialEvidence.Reporter)
				if err != nil {
					continue
				}
				exempt[string(rep)] = "disputed reporter"
				if snap, err := with.n.App.ReporterKeeper.Report.Get(with.ctx, collJoinReport(d.D.InitialEvidence.QueryId, rep, d.D.InitialEvidence.BlockNumber)); err == nil {
					for _, t := range snap.TokenOrigins {
						exempt[string(t.DelegatorAddress)] = "backer of the disputed report"
					}
				}
			}
			// (b) a reporter paying a dispute fee from the stake selected to it
			if m.B {
				for _, s := range without.Selectors() {
					if string(s.Reporter) == string(signer) {
						exempt[string(s.Addr)] = "selector of the reporter paying from stake"
					}
				}
			}
		case "remove_selector":
			// (c) the removal of a selector that fell below a full reporter's minimum
			exempt[string(c.Accounts.Addr(m.T))+"|selection"] = "removed selector"
		}
	}

	// accounts that signed a transaction of their own in this block are not judged: removing the transaction under
	// test can change the fate of their transaction (ante bounds, round state), and what they then pay or move is
	// their own doing
	ownTx := map[string]bool{}
	for i := range b.Txs {
		if in2 := c.IntentOfTx(b, i); in2 != nil && i != f.TxIdx {
			ownTx[string(c.Accounts.Addr(in2.Actor))] = true
		}
	}
	for _, a := range c.Accounts.Actors {
		if string(a.Addr) == string(signer) || ownTx[string(a.Addr)] {
			continue
		}
		hw, ho := holdingsOf(with, a.Addr), holdingsOf(without, a.Addr)
		// "reduced" = lower than before the block because of this transaction: with < pre <= without
		// (a third party that merely gains less than it would have without the tx is not reduced)
		hp, okPre := f.Pre[string(a.Addr)]
		if !okPre {
			continue
		}
		why, isExempt := exempt[string(a.Addr)]
		_ = why
		bad := func(what string, w, wo fmt.Stringer) {
			cls := "non-signer-" + what + "-reduced"
			if what == "reward-credit" && reporterWithCommissionAboveOne(with) {
				cls += ":commission-rate-outside-0-1"
			}
			out = append(out, o.v(b.H, "third-party", in.Msgs[0].K, cls, "tx %d (%s by %s) reduces the %s of %s: %s with the tx, %s without it", f.TxIdx, intentKinds(in), signer, what, a.Addr, w, wo))
		}
		if isExempt {
			o.count("exempt_accounts(stated exceptions)")
			continue
		}
		if hw.Liquid.Cmp(hp.Liquid) < 0 && hp.Liquid.Cmp(ho.Liquid) <= 0 {
			bad("liquid-balance", hw.Liquid, ho.Liquid)
		}
		var vals []string
		for k := range ho.Delegated {
			vals = append(vals, k)
		}
		sort.Strings(vals)
		totW, totO := new(big.Int), new(big.Int)
		for _, x := range hw.Delegated {
			totW.Add(totW, x)
		}
		for _, x := range ho.Delegated {
			totO.Add(totO, x)
		}
		totW.Add(totW, hw.Unbonding)
		totO.Add(totO, ho.Unbonding)
		totP := new(big.Int).Set(hp.Unbonding)
		for _, x := range hp.Delegated {
			totP.Add(totP, x)
		}
		if totW.Cmp(totP) < 0 && totP.Cmp(totO) <= 0 {
			bad("delegated-stake", totW, totO)
		}
		if hw.Credit.Cmp(hp.Credit) < 0 && hp.Credit.Cmp(ho.Credit) <= 0 && new(big.Rat).Sub(hp.Credit, hw.Credit).Cmp(big.NewRat(1, 1_000_000)) > 0 {
			bad("reward-credit", ratStr{hw.Credit}, ratStr{ho.Credit})
		}
		if hw.Selection != hp.Selection && ho.Selection == hp.Selection {
			if _, ok := exempt[string(a.Addr)+"|selection"]; !ok {
				out = append(out, o.v(b.H, "third-party", in.Msgs[0].K, "non-signer-selection-changed", "tx %d (%s by %s) changes the reporter selection of %s", f.TxIdx, intentKinds(in), signer, a.Addr))
			}
		}
	}
	return out
}

type ratStr struct{ r *big.Rat }

func (r ratStr) String() string { return r.r.FloatString(6) }

func (o *OracleC19) End(c *Chain) []*Violation { return nil }
