package sim

import (
	"bytes"
	"fmt"
	bridgetypes "github.com/tellor-io/layer/x/bridge/types"
	"sort"
	"strings"
	"time"

	abci "github.com/cometbft/cometbft/abci/types"
	cmtproto "github.com/cometbft/cometbft/proto/tendermint/types"
)

// Violation is one oracle mismatch. Signature() is what known_findings.json matches on.
type Violation struct {
	Property string `json:"property"`
	Oracle   string `json:"oracle"`
	Site     string `json:"site"`
	Class    string `json:"class"` // diagnosis class derived from inputs; "unclassified" is never suppressed
	Msg      string `json:"msg"`
	Height   int64  `json:"height"`
}

func (v *Violation) Signature() string {
	return v.Property + "/" + v.Oracle + "/" + v.Site + "/" + v.Class
}

// BlockCtx is what the oracles get after each decided block.
type BlockCtx struct {
	H        int64
	Time     time.Time
	PrevTime time.Time
	Plan     *HeightPlan
	Req      *abci.RequestFinalizeBlock
	Res      *abci.ResponseFinalizeBlock
	Txs      []TxRecord
	Ref      *Node
	Fork     *ForkResult // counterfactual execution without one transaction (nil when not requested)
}

type Oracle interface {
	ID() string
	// AfterBlock is called once per decided block, after every executing node committed.
	AfterBlock(c *Chain, b *BlockCtx) []*Violation
	// End is called after the run (quiet period included).
	End(c *Chain) []*Violation
}

// Executor drives the chain from PRNG-free HeightPlans.
type Executor struct {
	C       *Chain
	Oracles []Oracle
	Viol    []*Violation
	Target  string          // property whose violation ends the run (fatal ones always do)
	Known   map[string]bool // signatures listed as open known findings: reported, but they do not end the run
	seenSig map[string]bool
	// hook for oracles that need to look at handler-level events (C17)
	OnProposal func(h int64, round int32, proposer *Node, req *abci.RequestPrepareProposal, txs [][]byte, honest bool)
	intentOf   map[string]int // tx bytes hash -> intent id
}

func NewExecutor(c *Chain, oracles []Oracle) *Executor {
	return &Executor{C: c, Oracles: oracles, intentOf: map[string]int{}}
}

func (e *Executor) report(v ...*Violation) {
	for _, x := range v {
		if x == nil {
			continue
		}
		if e.seenSig == nil {
			e.seenSig = map[string]bool{}
		}
		if e.seenSig[x.Signature()] {
			continue
		}
		e.seenSig[x.Signature()] = true
		e.Viol = append(e.Viol, x)
	}
}

// Stop reports whether the run must end: a violation of the target property, or one after which
// continuing makes no sense (halt, divergence, handler failure).
func (e *Executor) Stop() bool {
	for _, v := range e.Viol {
		if (v.Property == e.Target || e.Target == "") && !e.Known[v.Signature()] {
			return true
		}
		switch v.Oracle {
		case "no-halt", "hash-equality", "replay", "full-replay", "handler-error", "coherence", "liveness":
			return true
		}
	}
	return false
}

func powerOf(vs []CometVal, consIdxs []int) int64 {
	var p int64
	for _, v := range vs {
		if contains(consIdxs, v.ConsIdx) {
			p += v.Power
		}
	}
	return p
}

// buildLastCommits produces (extended commit as held by a proposer, plain commit info) for block h-1.
func (e *Executor) buildLastCommits(h int64, absent []int) (abci.ExtendedCommitInfo, abci.CommitInfo) {
	c := e.C
	var ext abci.ExtendedCommitInfo
	var ci abci.CommitInfo
	if h <= 1 {
		return ext, ci
	}
	prev := c.Blocks[h-2]
	ext.Round = prev.Round
	ci.Round = prev.Round
	for _, v := range prev.ExtVotes {
		vv := v
		consIdx := c.consIdxByAddr(v.Validator.Address)
		if vv.BlockIdFlag == cmtproto.BlockIDFlagCommit && contains(absent, consIdx) {
			vv = abci.ExtendedVoteInfo{Validator: v.Validator, BlockIdFlag: cmtproto.BlockIDFlagAbsent}
		}
		ext.Votes = append(ext.Votes, vv)
		ci.Votes = append(ci.Votes, abci.VoteInfo{Validator: vv.Validator, BlockIdFlag: vv.BlockIdFlag})
	}
	return ext, ci
}

func (c *Chain) consIdxByAddr(addr []byte) int {
	for i, k := range c.Keys.ValCons {
		if bytes.Equal(k.PubKey().Address(), addr) {
			return i
		}
	}
	return -1
}

// proposerTxs takes the proposer's mempool in local arrival order.
func proposerTxs(n *Node, max int, perm []int) [][]byte {
	var txs [][]byte
	idx := make([]int, len(n.Mempool))
	for i := range idx {
		idx[i] = i
	}
	if len(perm) == len(idx) {
		idx = perm
	}
	for _, i := range idx {
		if len(txs) >= max {
			break
		}
		if i < len(n.Mempool) {
			txs = append(txs, n.Mempool[i].Bytes)
		}
	}
	return txs
}

func (e *Executor) deliver(h int64, d Delivery) error {
	c := e.C
	bz, err := c.Accounts.BuildTx(&d.Intent)
	if err != nil {
		// intent can no longer be expressed (e.g. refers to something that does not exist after minimisation)
		c.Stats.Probe["intent_unbuildable"]++
		return nil
	}
	e.intentOf[string(bz)] = d.Intent.ID
	c.Accounts.noteSubmitted(&d.Intent, bz, h)
	if len(d.To) == 0 {
		c.Stats.Fault("F1_tx_lost")
	}
	times := 1
	if d.Dup {
		times = 2
		c.Stats.Fault("F2_tx_dup")
	}
	for t := 0; t < times; t++ {
		for _, ni := range d.To {
			n := c.Nodes[ni]
			if !n.Up || n.App == nil {
				continue
			}
			res, err := n.App.CheckTx(&abci.RequestCheckTx{Tx: bz, Type: abci.CheckTxType_New})
			if err != nil {
				return internalf("CheckTx error: %v", err)
			}
			c.Accounts.noteCheckTx(&d.Intent, ni, res)
			if res.Code == 0 {
				dup := false
				for _, m := range n.Mempool {
					if bytes.Equal(m.Bytes, bz) {
						dup = true
					}
				}
				if !dup {
					n.Mempool = append(n.Mempool, MpTx{Bytes: bz, IntentID: d.Intent.ID})
				}
			}
		}
	}
	return nil
}

// catchUp makes node n execute all decided blocks it is missing (block sync / handshake replay).
func (e *Executor) catchUp(n *Node) error {
	c := e.C
	for n.Height() < c.Height() {
		b := c.Blocks[n.Height()]
		res, err := finalizeOn(n, b.Req)
		if err != nil {
			e.report(&Violation{Property: "C01", Oracle: "replay", Site: "FinalizeBlock", Class: "replay-error", Height: b.Req.Height,
				Msg: fmt.Sprintf("node %d replaying block %d: %v (first execution succeeded)", n.Idx, b.Req.Height, err)})
			return nil
		}
		if _, err := n.App.Commit(); err != nil {
			return internalf("commit during catch-up: %v", err)
		}
		c.Stats.Replays++
		c.Stats.Executions++
		if !bytes.Equal(res.AppHash, b.AppHash) || !bytes.Equal(resultsDigest(res), b.ResultsHash) {
			e.report(e.divergence(b.Req.Height, n, res, "replay"))
			return nil
		}
	}
	return nil
}

func (e *Executor) divergence(h int64, n *Node, res *abci.ResponseFinalizeBlock, how string) *Violation {
	b := e.C.Blocks[h-1]
	what := "app hash"
	if bytes.Equal(res.AppHash, b.AppHash) {
		what = "results/events"
	}
	return &Violation{Property: "C01", Oracle: "hash-equality", Site: how, Class: "divergence-" + what, Height: h,
		Msg: fmt.Sprintf("node %d (%s) block %d: %s differs: app %s vs %s, results %s vs %s", n.Idx, how, h, what,
			short(res.AppHash), short(b.AppHash), short(resultsDigest(res)), short(b.ResultsHash))}
}

// voteExtStateDiff: two honest nodes executed the same decided block and disagree (the run ends here anyway). Both
// commit, and what the pre-block step wrote from the block's injected vote-extension data is compared: C17 requires it
// to be exactly the accepted data of that block, hence identical on every node.
func (e *Executor) voteExtStateDiff(h int64, ref, n *Node) []*Violation {
	if _, err := ref.App.Commit(); err != nil {
		return nil
	}
	if _, err := n.App.Commit(); err != nil {
		return nil
	}
	dump := func(x *Node) map[string]string {
		out := map[string]string{}
		v := e.C.ViewOf(x)
		bk := x.App.BridgeKeeper
		_ = bk.OperatorToEVMAddressMap.Walk(v.ctx, nil, func(k string, a bridgetypes.EVMAddress) (bool, error) {
			out["evm|"+k] = fmt.Sprintf("%x", a.EVMAddress)
			return false, nil
		})
		_ = bk.BridgeValsetSignaturesMap.Walk(v.ctx, nil, func(k uint64, sg bridgetypes.BridgeValsetSignatures) (bool, error) {
			out[fmt.Sprintf("valset-signatures|%d", k)] = fmt.Sprintf("%x", sg.Signatures)
			return false, nil
		})
		_ = bk.SnapshotToAttestationsMap.Walk(v.ctx, nil, func(k []byte, a bridgetypes.OracleAttestations) (bool, error) {
			out[fmt.Sprintf("attestations|%x", k)] = fmt.Sprintf("%x", a.Attestations)
			return false, nil
		})
		return out
	}
	a, b := dump(ref), dump(n)
	var keys []string
	for k := range a {
		keys = append(keys, k)
	}
	for k := range b {
		if _, ok := a[k]; !ok {
			keys = append(keys, k)
		}
	}
	sort.Strings(keys)
	for _, k := range keys {
		if a[k] != b[k] {
			what := k
			if i := strings.IndexByte(k, '|'); i > 0 {
				what = k[:i]
			}
			return []*Violation{{Property: "C17", Oracle: "state", Site: "PreBlocker", Class: "nodes-wrote-different-vote-extension-data:" + what, Height: h,
				Msg: fmt.Sprintf("block %d: node %d and node %d executed the same decided block but the pre-block step left different %s (%s): what is written must be exactly the block's accepted data", h, ref.Idx, n.Idx, what, truncate(k, 60))}}
		}
	}
	return nil
}

// rejectDiag: input-level diagnosis of a rejected honest proposal — a validator whose vote is in the commit of the
// previous height no longer has a record in the staking store of the rejecting node (it left the bonded set and its
// unbonding matured within the two blocks during which the consensus engine still counts its votes).
func (e *Executor) rejectDiag(n *Node, lc abci.CommitInfo) string {
	ctx := e.C.Ctx(n)
	for _, v := range lc.Votes {
		if _, err := n.App.StakingKeeper.GetValidatorByConsAddr(ctx, v.Validator.Address); err != nil {
			return ":commit-validator-record-removed"
		}
	}
	return ""
}

func (e *Executor) crashAt(p *HeightPlan, pt CrashPoint) {
	for _, ce := range p.Crashes {
		if ce.Point == pt {
			n := e.C.Nodes[ce.Node]
			if n.Up {
				n.Crash()
				e.C.Stats.Fault(fmt.Sprintf("F5_crash_point%d", pt))
			}
		}
	}
}

// Step executes one height according to plan p. A returned error is simulator trouble (exit 2).
func (e *Executor) Step(p *HeightPlan) error {
	c := e.C
	h := c.Height() + 1
	if p.H != h {
		return internalf("plan height %d, chain expects %d", p.H, h)
	}
	vs := c.valSet(h)

	for _, ni := range p.Restarts {
		n := c.Nodes[ni]
		if !n.Up {
			if err := n.Restart(); err != nil {
				return internalf("restart node %d: %v", ni, err)
			}
			c.Stats.Restarts++
			if err := e.catchUp(n); err != nil {
				return err
			}
		}
	}
	for _, ni := range p.CatchUp {
		n := c.Nodes[ni]
		if n.Up {
			if err := e.catchUp(n); err != nil {
				return err
			}
		}
	}
	if e.Stop() {
		return nil
	}
	for _, d := range p.Deliver {
		if err := e.deliver(h, d); err != nil {
			return err
		}
	}

	dt := p.DtMs
	if dt < 1 {
		dt = 1
	}
	t := c.LastTime.Add(time.Duration(dt) * time.Millisecond)
	if h == 1 {
		t = c.LastTime
	}
	hash := blockHash(h)

	round := int32(0)
	for _, fr := range p.FailedRounds {
		if err := e.failedRound(h, round, t, hash, &fr, p); err != nil {
			return err
		}
		round++
		c.Stats.Fault("F7_failed_round")
	}
	if e.Stop() {
		return nil
	}

	// deciding round
	prop := c.Nodes[p.Proposer]
	if !prop.Up || prop.Height() != h-1 {
		return internalf("proposer %d not ready at height %d", p.Proposer, h)
	}
	extCommit, lastCommit := e.buildLastCommits(h, p.Absent)
	max := p.MaxTxs
	txsIn := proposerTxs(prop, max, p.PermuteTxs)
	ppReq := &abci.RequestPrepareProposal{Height: h, Time: t, MaxTxBytes: 2 << 20, Txs: txsIn, LocalLastCommit: extCommit,
		ProposerAddress: c.Keys.ValCons[prop.ConsIdx].PubKey().Address()}
	pp, err := prop.App.PrepareProposal(ppReq)
	if err != nil {
		e.report(&Violation{Property: "C17", Oracle: "handler-error", Site: "PrepareProposal", Class: "error", Height: h, Msg: err.Error()})
		return nil
	}
	txs := pp.Txs
	if e.OnProposal != nil {
		e.OnProposal(h, round, prop, ppReq, txs, true)
	}
	e.crashAt(p, CrashBeforeProcess)
	procReq := func() *abci.RequestProcessProposal {
		return &abci.RequestProcessProposal{Height: h, Time: t, Txs: txs, ProposedLastCommit: lastCommit, Hash: hash,
			ProposerAddress: ppReq.ProposerAddress}
	}
	var voters []*Node
	for _, ni := range p.Voters {
		n := c.Nodes[ni]
		if !n.Up || n.Height() != h-1 {
			continue
		}
		r, err := n.App.ProcessProposal(procReq())
		if err != nil {
			e.report(&Violation{Property: "C17", Oracle: "handler-error", Site: "ProcessProposal", Class: "error", Height: h, Msg: err.Error()})
			return nil
		}
		if r.Status != abci.ResponseProcessProposal_ACCEPT {
			e.report(&Violation{Property: "C17", Oracle: "coherence", Site: "ProcessProposal", Class: "honest-proposal-rejected" + e.rejectDiag(n, lastCommit), Height: h,
				Msg: fmt.Sprintf("height %d round %d: validator node %d rejected the proposal built by honest proposer node %d from a valid extended commit (absent=%v)", h, round, ni, p.Proposer, p.Absent)})
			return nil
		}
		c.Stats.Probe["process_accept"]++
		voters = append(voters, n)
	}
	e.crashAt(p, CrashAfterProcess)

	// tamper probes (F8, proposal side): side-effect free, evaluated on every voter
	for i := range p.TamperProbes {
		e.tamperProbe(h, t, hash, txs, lastCommit, ppReq.ProposerAddress, &p.TamperProbes[i], voters)
	}

	// precommits with vote extensions
	type pc struct {
		consIdx int
		ext     []byte
	}
	var pcs []pc
	for _, n := range voters {
		if !n.Up {
			continue
		}
		var ext []byte
		if m, ok := p.ExtMut[n.Idx]; ok {
			ext = m.Payload(c, n, h)
			c.Stats.Fault("F8_byz_ext_" + m.Kind)
		} else {
			if c.Cfg.KeyringShipped {
				n.selectKeyring()
			}
			var restore func()
			if contains(p.KeyringFail, n.Idx) {
				restore = n.breakKeyring()
				c.Stats.Fault("F11_keyring_fail")
			}
			r, err := n.App.ExtendVote(nil, &abci.RequestExtendVote{Height: h, Hash: hash, Time: t, Txs: txs, ProposedLastCommit: lastCommit, ProposerAddress: ppReq.ProposerAddress})
			if restore != nil {
				restore()
			}
			if err != nil {
				e.report(&Violation{Property: "C17", Oracle: "handler-error", Site: "ExtendVote", Class: "error", Height: h, Msg: err.Error()})
				return nil
			}
			ext = r.VoteExtension
		}
		pcs = append(pcs, pc{n.ConsIdx, ext})
	}
	e.crashAt(p, CrashAfterExtend)

	// every receiver verifies every foreign extension; a rejected extension invalidates that precommit
	accepted := map[int]bool{}
	for _, x := range pcs {
		ok := true
		for _, n := range voters {
			if !n.Up || n.ConsIdx == x.consIdx {
				continue
			}
			r, err := n.App.VerifyVoteExtension(&abci.RequestVerifyVoteExtension{Height: h, Hash: hash,
				ValidatorAddress: c.Keys.ValCons[x.consIdx].PubKey().Address(), VoteExtension: x.ext})
			if err != nil {
				e.report(&Violation{Property: "C17", Oracle: "handler-error", Site: "VerifyVoteExtension", Class: "error", Height: h, Msg: err.Error()})
				return nil
			}
			if r.Status != abci.ResponseVerifyVoteExtension_ACCEPT {
				ok = false
				if _, byz := p.ExtMut[c.Nodes[x.consIdx].Idx]; !byz {
					c.Stats.Probe["honest_ext_rejected"]++
				}
				break
			}
		}
		accepted[x.consIdx] = ok
	}
	var extVotes []abci.ExtendedVoteInfo
	var votedPower int64
	for _, v := range vs {
		ev := abci.ExtendedVoteInfo{Validator: abci.Validator{Address: v.Addr, Power: v.Power}, BlockIdFlag: cmtproto.BlockIDFlagAbsent}
		for _, x := range pcs {
			if x.consIdx == v.ConsIdx && accepted[x.consIdx] {
				ev.BlockIdFlag = cmtproto.BlockIDFlagCommit
				ev.VoteExtension = x.ext
				ev.ExtensionSignature = c.signExt(v.ConsIdx, x.ext, h, round)
				votedPower += v.Power
			}
		}
		extVotes = append(extVotes, ev)
	}
	if votedPower*3 <= totalPower(vs)*2 {
		return internalf("height %d: plan gives only %d of %d power; generator must keep > 2/3", h, votedPower, totalPower(vs))
	}

	// counterfactual fork requested for one intent of this block: clone a node's state at h-1 now
	var fork *ForkResult
	forkIdx := -1
	if p.ForkIntent != 0 {
		for i, tx := range txs {
			if id, ok := e.intentOf[string(tx)]; ok && id == p.ForkIntent {
				forkIdx = i
			}
		}
		if forkIdx >= 0 {
			f, err := e.startFork(prop)
			if err != nil {
				return err
			}
			fork = f
			defer fork.close()
		}
	}
	// decide: every executing node runs the block
	req := &abci.RequestFinalizeBlock{Height: h, Time: t, Txs: txs, DecidedLastCommit: lastCommit, Hash: hash,
		ProposerAddress: ppReq.ProposerAddress}
	var blk *Block
	var firstRes *abci.ResponseFinalizeBlock
	var executed []*Node
	for _, ni := range p.Exec {
		n := c.Nodes[ni]
		if !n.Up || n.Height() != h-1 {
			continue
		}
		res, err := finalizeOn(n, req)
		c.Stats.Executions++
		if err != nil {
			v := classifyHalt(h, n, err)
			c.Halted = v
			e.report(v)
			return nil
		}
		if blk == nil {
			blk = &Block{Req: req, AppHash: res.AppHash, ResultsHash: resultsDigest(res), Round: round, ExtVotes: extVotes}
			c.Blocks = append(c.Blocks, blk)
			firstRes = res
		} else if !bytes.Equal(res.AppHash, blk.AppHash) || !bytes.Equal(resultsDigest(res), blk.ResultsHash) {
			e.report(e.divergence(h, n, res, "live"))
			if len(executed) > 0 {
				e.report(e.voteExtStateDiff(h, executed[0], n)...)
			}
			return nil
		}
		executed = append(executed, n)
	}
	if blk == nil {
		return internalf("height %d: nobody executed the block", h)
	}
	e.crashAt(p, CrashAfterFinalize)
	for _, n := range executed {
		if !n.Up {
			continue
		}
		if _, err := n.App.Commit(); err != nil {
			return internalf("commit: %v", err)
		}
	}
	e.crashAt(p, CrashAfterCommit)

	// validator-set bookkeeping (updates of height h take effect at h+2)
	next := append([]CometVal(nil), c.valSet(h+1)...)
	for _, vu := range firstRes.ValidatorUpdates {
		addr := pubKeyAddr(vu)
		ci := c.consIdxByAddr(addr)
		found := false
		for i := range next {
			if bytes.Equal(next[i].Addr, addr) {
				found = true
				if vu.Power == 0 {
					next = append(next[:i], next[i+1:]...)
				} else {
					next[i].Power = vu.Power
				}
				break
			}
		}
		if !found && vu.Power > 0 {
			if ci < 0 {
				return internalf("validator update for unknown consensus key")
			}
			next = append(next, CometVal{ConsIdx: ci, Addr: addr, Power: vu.Power})
		}
	}
	sortVals(next)
	if _, ok := c.ValSets[h+1]; !ok {
		c.ValSets[h+1] = c.valSet(h + 1)
	}
	c.ValSets[h+2] = next

	prevTime := c.LastTime
	c.LastTime = t
	c.Stats.Blocks++
	if h > 1 {
		c.Stats.SimulatedMs += dt
		if dt > c.Stats.MaxGapMs {
			c.Stats.MaxGapMs = dt
		}
		if dt < c.Stats.MinGapMs {
			c.Stats.MinGapMs = dt
		}
	}

	// tx records + mempool maintenance
	var recs []TxRecord
	for i, r := range firstRes.TxResults {
		id, ok := e.intentOf[string(txs[i])]
		if !ok {
			id = -1
		}
		recs = append(recs, TxRecord{Height: h, Index: i, IntentID: id, Code: r.Code, Codespace: r.Codespace, Log: r.Log,
			GasUsed: r.GasUsed, GasWanted: r.GasWanted, Events: r.Events})
		if id >= 0 {
			c.Stats.Txs++
			if r.Code == 0 {
				c.Stats.TxOK++
			} else {
				c.Stats.TxFail++
			}
		}
	}
	c.Accounts.noteBlock(h, txs, recs)
	for _, n := range c.Nodes {
		if !n.Up || n.Height() != h {
			continue
		}
		var keep []MpTx
		for _, m := range n.Mempool {
			inBlock := false
			for _, tx := range txs {
				if bytes.Equal(tx, m.Bytes) {
					inBlock = true
					break
				}
			}
			if inBlock {
				continue
			}
			r, err := n.App.CheckTx(&abci.RequestCheckTx{Tx: m.Bytes, Type: abci.CheckTxType_Recheck})
			if err == nil && r.Code == 0 {
				keep = append(keep, m)
			}
		}
		n.Mempool = keep
	}

	// handler panics recovered by baseapp (C17 d)
	for _, n := range c.Nodes {
		if len(n.Panics) > 0 {
			e.report(&Violation{Property: "C17", Oracle: "no-panic", Site: "abci-handler", Class: classifyPanic(n.Panics[0]), Height: h,
				Msg: fmt.Sprintf("node %d: %s", n.Idx, n.Panics[0])})
			n.Panics = nil
		}
	}

	ref := c.RefNode()
	if ref == nil {
		return internalf("no node at tip after height %d", h)
	}
	bc := &BlockCtx{H: h, Time: t, PrevTime: prevTime, Plan: p, Req: req, Res: firstRes, Txs: recs, Ref: ref}
	if fork != nil {
		if err := e.finishFork(fork, req, forkIdx); err == nil {
			bc.Fork = fork
		}
	}
	for _, o := range e.Oracles {
		vs := o.AfterBlock(c, bc)
		// oracles walk Go maps: fix the order of what one oracle reports for one block
		sort.SliceStable(vs, func(i, j int) bool {
			if a, b := vs[i].Signature(), vs[j].Signature(); a != b {
				return a < b
			}
			return vs[i].Msg < vs[j].Msg
		})
		e.report(vs...)
	}
	return nil
}

func (e *Executor) failedRound(h int64, round int32, t time.Time, hash []byte, fr *RoundPlan, p *HeightPlan) error {
	c := e.C
	prop := c.Nodes[fr.Proposer]
	if !prop.Up || prop.Height() != h-1 {
		return nil // proposer down: pure timeout
	}
	extCommit, lastCommit := e.buildLastCommits(h, nil)
	txsIn := proposerTxs(prop, p.MaxTxs, nil)
	ppReq := &abci.RequestPrepareProposal{Height: h, Time: t, MaxTxBytes: 2 << 20, Txs: txsIn, LocalLastCommit: extCommit,
		ProposerAddress: c.Keys.ValCons[prop.ConsIdx].PubKey().Address()}
	pp, err := prop.App.PrepareProposal(ppReq)
	if err != nil {
		e.report(&Violation{Property: "C17", Oracle: "handler-error", Site: "PrepareProposal", Class: "error", Height: h, Msg: err.Error()})
		return nil
	}
	for _, ni := range fr.Process {
		n := c.Nodes[ni]
		if !n.Up || n.Height() != h-1 {
			continue
		}
		r, err := n.App.ProcessProposal(&abci.RequestProcessProposal{Height: h, Time: t, Txs: pp.Txs, ProposedLastCommit: lastCommit, Hash: hash, ProposerAddress: ppReq.ProposerAddress})
		if err != nil {
			e.report(&Violation{Property: "C17", Oracle: "handler-error", Site: "ProcessProposal", Class: "error", Height: h, Msg: err.Error()})
			return nil
		}
		if r.Status != abci.ResponseProcessProposal_ACCEPT {
			e.report(&Violation{Property: "C17", Oracle: "coherence", Site: "ProcessProposal", Class: "honest-proposal-rejected" + e.rejectDiag(n, lastCommit), Height: h,
				Msg: fmt.Sprintf("height %d failed round %d: node %d rejected honest proposal of node %d", h, round, ni, fr.Proposer)})
			return nil
		}
		if contains(fr.Extend, ni) {
			if c.Cfg.KeyringShipped {
				n.selectKeyring()
			}
			if _, err := n.App.ExtendVote(nil, &abci.RequestExtendVote{Height: h, Hash: hash, Time: t, Txs: pp.Txs, ProposedLastCommit: lastCommit, ProposerAddress: ppReq.ProposerAddress}); err != nil {
				e.report(&Violation{Property: "C17", Oracle: "handler-error", Site: "ExtendVote", Class: "error", Height: h, Msg: err.Error()})
				return nil
			}
		}
	}
	return nil
}
