package sim

func baseOps() map[string]int {
	return map[string]int{
		"tip": 12, "create_reporter": 8, "select_reporter": 6, "switch_reporter": 2, "remove_selector": 1,
		"submit_value": 30, "withdraw_tip": 4, "delegate": 4, "undelegate": 3, "redelegate": 2, "send": 2, "unjail_reporter": 2,
		"propose_dispute": 5, "add_fee": 3, "vote": 10, "withdraw_fee_refund": 3, "claim_reward": 3, "add_evidence": 1, "update_team": 1,
		"request_attestations": 3, "withdraw_tokens": 3, "claim_deposits": 3, "deposit_report": 6, "register_spec": 1,
		"gov_proposal": 1, "gov_vote": 6, "privileged_direct": 1, "multi": 3, "wrong_signer": 2, "create_validator": 1, "unjail_validator": 3,
		"cancel_unbonding": 1, "tie_reports": 2, "tie_vote": 2, "double_report": 3, "dispute_round": 2, "split_reports": 2,
	}
}

func baseFaults() map[string]float64 {
	return map[string]float64{
		"partition": 0.02, "slow": 0.08, "vote_loss": 0.15, "failed_round": 0.05, "crash": 0.04,
		"byz_ext": 0.15, "keyring_fail": 0.01, "tamper": 0.1, "tiny_block": 0.02, "reorder": 0.1,
		"oog": 0.03, "low_fee": 0.01, "bad_seq": 0.01, "tx_loss": 0.03, "tx_partial": 0.2, "tx_delay": 0.3, "tx_dup": 0.03,
		"clock_back": 0.05, "jitter": 0.3, "aim_deadline": 0.15,
	}
}

func GeneralProfile() *Profile {
	return &Profile{
		Name: "general", Blocks: [2]int{60, 150}, OpW: baseOps(), TxPerBlock: [2]int{0, 6}, FaultFree: 0.3, Faults: baseFaults(),
		Vals: []int{1, 3, 4, 7}, ValW: []int{1, 3, 5, 1}, Witnesses: [2]int{0, 2}, Candidates: [2]int{0, 1},
		BigGaps: 0.02, OneTxBlocks: 0.15, AvoidKnown: 0.7,
	}
}

// Profiles by property id.
func ProfileFor(id, tier string) *Profile {
	p := GeneralProfile()
	p.Name = id
	bump := func(m map[string]int) {
		for k, v := range m {
			p.OpW[k] = v
		}
	}
	switch id {
	case "C01", "C06":
		bump(map[string]int{"tie_reports": 25, "register_spec": 4, "create_reporter": 12, "submit_value": 40})
		p.Witnesses = [2]int{1, 3}
		p.LongFrac = 0.12 // deposit rounds (weighted mode) closing in the same block as cycle-list rounds (weighted median)
		p.TinyStakes = 0.4
	case "C02":
		p.BigGaps = 0.04
		p.LongFrac = 0.15 // EndBlock paths that only run when several deposit rounds close in one block
		bump(map[string]int{"gov_proposal": 3, "gov_vote": 12, "propose_dispute": 8, "vote": 10, "tie_vote": 8})
	case "C03":
		bump(map[string]int{"gov_proposal": 3, "gov_vote": 12, "tip": 25, "withdraw_tokens": 6, "claim_deposits": 5})
		p.OneTxBlocks = 0.3
		p.LongFrac = 0.15
	case "C04", "C09":
		bump(map[string]int{"tip": 25, "create_reporter": 12, "select_reporter": 10, "switch_reporter": 4, "withdraw_tip": 8, "gov_proposal": 3, "gov_vote": 12, "double_report": 12, "split_reports": 10})
		p.LongFrac = 0.12 // several deposit rounds closing in one block: one time-based reward paid over several aggregates
	case "C05", "C10":
		bump(map[string]int{"delegate": 10, "undelegate": 10, "redelegate": 8, "cancel_unbonding": 3, "propose_dispute": 10, "add_fee": 6, "withdraw_fee_refund": 6, "withdraw_tip": 8, "select_reporter": 10, "switch_reporter": 5, "create_validator": 2, "gov_proposal": 3, "gov_vote": 12})
		p.Faults["partition"] = 0.05
		p.Candidates = [2]int{0, 2}
		p.SdkSlash = 0.3 // unbonding entries whose balance fell below their initial balance
	case "C07", "C08":
		bump(map[string]int{"tip": 25, "submit_value": 45, "gov_proposal": 3, "gov_vote": 12, "request_attestations": 6, "propose_dispute": 6, "add_evidence": 4, "withdraw_tokens": 5, "double_report": 10})
	case "C11", "C12", "C13":
		bump(map[string]int{"propose_dispute": 14, "add_fee": 8, "vote": 20, "tie_vote": 8, "withdraw_fee_refund": 8, "claim_reward": 10, "tip": 14, "redelegate": 5, "undelegate": 5, "dispute_round": 10, "gov_proposal": 2, "gov_vote": 8})
		p.BigGaps = 0.06
		p.Faults["aim_deadline"] = 0.3
	case "C14":
		bump(map[string]int{"deposit_report": 20, "claim_deposits": 12, "withdraw_tokens": 12, "create_reporter": 14, "op_reporter": 6})
		p.BigGaps = 0.05
		p.LongFrac = 0.35
	case "C16", "C17":
		bump(map[string]int{"request_attestations": 8, "delegate": 8, "undelegate": 8, "redelegate": 5, "create_validator": 3, "unjail_validator": 5})
		p.Faults["byz_ext"] = 0.3
		p.Faults["tamper"] = 0.3
		p.Faults["failed_round"] = 0.15 // several proposals per height, processed by different subsets of the nodes
		p.Faults["vote_loss"] = 0.3
		p.Faults["partition"] = 0.05
		p.Candidates = [2]int{0, 2}
		p.BigGaps = 0.04
	case "C18":
		bump(map[string]int{"delegate": 14, "undelegate": 12, "redelegate": 8, "cancel_unbonding": 4, "multi": 14, "create_validator": 3})
		p.Faults["aim_deadline"] = 0.3
		p.BigGaps = 0.05
	case "C19":
		bump(map[string]int{"wrong_signer": 10, "privileged_direct": 6, "gov_proposal": 3, "gov_vote": 10, "update_team": 4, "register_spec": 4, "remove_selector": 5})
		p.OneTxBlocks = 0.5
		p.ForkProb = 0.5
	}
	if tier == "thorough" {
		p.Blocks = [2]int{60, 600}
	}
	return p
}
