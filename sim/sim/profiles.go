package sim

func baseOps() map[string]int {
	return map[string]int{
		"tip": 12, "create_reporter": 8, "select_reporter": 6, "switch_reporter": 2, "remove_selector": 1,
		"submit_value": 30, "withdraw_tip": 4, "delegate": 4, "undelegate": 3, "redelegate": 2, "send": 2, "unjail_reporter": 2,
		"propose_dispute": 5, "add_fee": 3, "vote": 10, "withdraw_fee_refund": 3, "claim_reward": 3, "add_evidence": 1, "update_team": 1,
		"request_attestations": 3, "withdraw_tokens": 3, "claim_deposits": 3, "deposit_report": 6, "register_spec": 1,
		"gov_proposal": 1, "gov_vote": 6, "privileged_direct": 1, "multi": 3, "wrong_signer": 2, "create_validator": 1, "unjail_validator": 3,
		"cancel_unbonding": 1, "tie_reports": 2,
	}
}

func baseFaults() map[string]float64 {
	return map[string]float64{
		"partition": 0.02, "slow": 0.08, "vote_loss": 0.15, "failed_round": 0.05, "crash": 0.04,
		"byz_ext": 0.15, "keyring_fail": 0.01, "tamper": 0.1, "tiny_block": 0.02, "reorder": 0.1,
		"oog": 0.03, "low_fee": 0.01, "bad_seq": 0.01, "tx_loss": 0.03, "tx_partial": 0.2, "tx_delay": 0.3, "tx_dup": 0.03,
		"clock_back": 0.05, "jitter": 0.3, "aim_deadline": 0.15,
	}
}

func GeneralProfile() *Profile {
	return &Profile{
		Name: "general", Blocks: [2]int{60, 150}, OpW: baseOps(), TxPerBlock: [2]int{0, 6}, FaultFree: 0.3, Faults: baseFaults(),
		Vals: []int{1, 3, 4, 7}, ValW: []int{1, 3, 5, 1}, Witnesses: [2]int{0, 2}, Candidates: [2]int{0, 1},
		BigGaps: 0.02, OneTxBlocks: 0.15, AvoidKnown: 0.7,
	}
}

// Profiles by property id.
func ProfileFor(id, tier string) *Profile {
	p := GeneralProfile()
	p.Name = id
	if tier == "thorough" {
		p.Blocks = [2]int{60, 600}
	}
	return p
}
