package sim

import (
	"bytes"
	"encoding/json"
	"fmt"
	"math/big"
	"sort"

	"github.com/tellor-io/layer/app"
	bridgetypes "github.com/tellor-io/layer/x/bridge/types"
)

// OracleC16 — validator-set checkpoints form a chain an EVM light client can always follow.
type OracleC16 struct {
	counters
	lastIdx  int64 // latest checkpoint index seen (-1 = none)
	lastSet  []EvmValidator
	lastTs   uint64
	accepted map[uint64]bool // checkpoint index whose step the contract model accepted
	tried    map[uint64]int
	sentBy   map[string]map[string]bool // "<checkpoint timestamp>|<signature hex>" -> EVM addresses of the validators whose vote extension carried it
}

func NewOracleC16() *OracleC16 {
	return &OracleC16{counters: newCounters(), lastIdx: -1, accepted: map[uint64]bool{}, tried: map[uint64]int{}, sentBy: map[string]map[string]bool{}}
}
func (o *OracleC16) ID() string { return "C16" }

func (o *OracleC16) v(h int64, oracle, site, class, f string, a ...any) *Violation {
	return &Violation{Property: "C16", Oracle: oracle, Site: site, Class: class, Height: h, Msg: fmt.Sprintf(f, a...)}
}

func toEvmSet(s bridgetypes.BridgeValidatorSet) []EvmValidator {
	var out []EvmValidator
	for _, v := range s.BridgeValidatorSet {
		out = append(out, EvmValidator{Addr: append([]byte{}, v.EthereumAddress...), Power: v.Power})
	}
	return out
}

func sameSet(a, b []EvmValidator) bool {
	if len(a) != len(b) {
		return false
	}
	for i := range a {
		if !bytes.Equal(a[i].Addr, b[i].Addr) || a[i].Power != b[i].Power {
			return false
		}
	}
	return true
}

// referenceSet: validators with a registered EVM address and non-zero power, by power desc then address asc.
// strict = only bonded validators; loose = every validator record with tokens (both readings of "power").
func (o *OracleC16) referenceSets(v *View) (strict, loose []EvmValidator) {
	for _, val := range v.Validators() {
		e, err := v.n.App.BridgeKeeper.OperatorToEVMAddressMap.Get(v.ctx, val.OperatorAddress)
		if err != nil {
			continue
		}
		p := new(big.Int).Div(val.Tokens.BigInt(), big.NewInt(1_000_000))
		if p.Sign() == 0 || !p.IsUint64() {
			continue
		}
		ev := EvmValidator{Addr: append([]byte{}, e.EVMAddress...), Power: p.Uint64()}
		loose = append(loose, ev)
		if val.IsBonded() {
			strict = append(strict, ev)
		}
	}
	srt := func(s []EvmValidator) {
		sort.SliceStable(s, func(i, j int) bool {
			if s[i].Power != s[j].Power {
				return s[i].Power > s[j].Power
			}
			return bytes.Compare(s[i].Addr, s[j].Addr) < 0
		})
	}
	srt(strict)
	srt(loose)
	return
}

func relShiftAtLeast5pct(old, cur []EvmValidator) bool {
	pw := map[string]*big.Int{}
	tot := new(big.Int)
	for _, v := range old {
		pw[string(v.Addr)] = new(big.Int).SetUint64(v.Power)
		tot.Add(tot, new(big.Int).SetUint64(v.Power))
	}
	for _, v := range cur {
		if pw[string(v.Addr)] == nil {
			pw[string(v.Addr)] = new(big.Int)
		}
		pw[string(v.Addr)].Sub(pw[string(v.Addr)], new(big.Int).SetUint64(v.Power))
	}
	delta := new(big.Int)
	for _, d := range pw {
		delta.Add(delta, new(big.Int).Abs(d))
	}
	if tot.Sign() == 0 {
		return false
	}
	// delta/tot >= 5/100
	return new(big.Int).Mul(delta, big.NewInt(100)).Cmp(new(big.Int).Mul(tot, big.NewInt(5))) >= 0
}

const twoWeeksMs = 14 * 24 * 3600 * 1000

func (o *OracleC16) AfterBlock(c *Chain, b *BlockCtx) []*Violation {
	var out []*Violation
	if b.H < 2 {
		return nil
	}
	v := c.ViewOf(b.Ref)
	bk := b.Ref.App.BridgeKeeper
	o.recordSenders(c, b, v)
	strict, loose := o.referenceSets(v)
	if len(loose) == 0 {
		return nil
	}
	// ---- the set the chain computes (what relayers and the vote-extension handlers read)
	curSet, err := bk.GetCurrentValidatorSetEVMCompatible(v.ctx)
	if err == nil {
		got := toEvmSet(*curSet)
		o.count("set_checks")
		if !sameSet(got, strict) && !sameSet(got, loose) {
			out = append(out, o.v(b.H, "set", "GetCurrentValidatorSetEVMCompatible", "bridge-set-mismatch", "bridge validator set has %d members %v; validators with an EVM address and non-zero power: %v (bonded only) / %v (all)", len(got), fmtSet(got), fmtSet(strict), fmtSet(loose)))
		}
		for i := 1; i < len(got); i++ {
			if got[i-1].Power < got[i].Power || (got[i-1].Power == got[i].Power && bytes.Compare(got[i-1].Addr, got[i].Addr) >= 0) {
				out = append(out, o.v(b.H, "set", "GetCurrentValidatorSetEVMCompatible", "bridge-set-order", "bridge set not ordered by power desc then address at position %d", i))
			}
		}
	}
	// ---- checkpoint rule
	latest, err := bk.LatestCheckpointIdx.Get(v.ctx)
	idx := int64(-1)
	if err == nil {
		idx = int64(latest.Index)
		// LatestCheckpointIdx is zero-valued before the first checkpoint too: look for the record
		if _, err := bk.ValidatorCheckpointIdxMap.Get(v.ctx, 0); err != nil {
			idx = -1
		}
	}
	newCp := idx > o.lastIdx
	blockMs := uint64(b.Time.UnixMilli())
	if o.lastIdx < 0 {
		if !newCp {
			out = append(out, o.v(b.H, "rule", "CompareAndSetBridgeValidators", "no-first-checkpoint", "no checkpoint exists although the bridge set is non-empty"))
		}
	} else {
		age := int64(blockMs) - int64(o.lastTs)
		stale := age > twoWeeksMs
		greyStale := age >= twoWeeksMs-1000 && age <= twoWeeksMs+1000
		// the candidate set at this block end (either reading of "power")
		shiftStrict := !sameSet(strict, o.lastSet) && relShiftAtLeast5pct(o.lastSet, strict)
		shiftLoose := !sameSet(loose, o.lastSet) && relShiftAtLeast5pct(o.lastSet, loose)
		must := (shiftStrict && shiftLoose) || (stale && !greyStale)
		may := shiftStrict || shiftLoose || stale || greyStale
		o.count("rule_checks")
		if newCp && !may {
			out = append(out, o.v(b.H, "rule", "CompareAndSetBridgeValidators", "checkpoint-without-cause", "checkpoint %d recorded although the set's power shifted by less than 5%% and the last checkpoint is %d ms old", idx, age))
		}
		if !newCp && must {
			cause := "power shift >= 5%"
			if stale {
				cause = "last checkpoint older than two weeks"
			}
			out = append(out, o.v(b.H, "rule", "CompareAndSetBridgeValidators", "missing-checkpoint", "no checkpoint recorded in block %d although: %s (last checkpoint age %d ms)", b.H, cause, age))
		}
		if newCp && stale {
			o.count("checkpoints_by_staleness")
		}
		if newCp && (shiftStrict || shiftLoose) {
			o.count("checkpoints_by_power_shift")
		}
	}
	if newCp {
		if idx != o.lastIdx+1 {
			out = append(out, o.v(b.H, "chain", "LatestCheckpointIdx", "index-gap", "checkpoint index jumped from %d to %d", o.lastIdx, idx))
		}
		tsRec, err := bk.ValidatorCheckpointIdxMap.Get(v.ctx, uint64(idx))
		if err != nil {
			out = append(out, o.v(b.H, "chain", "ValidatorCheckpointIdxMap", "missing-index-record", "no timestamp for checkpoint %d", idx))
			return out
		}
		ts := tsRec.Timestamp
		if o.lastIdx >= 0 && ts <= o.lastTs {
			out = append(out, o.v(b.H, "chain", "ValidatorCheckpointIdxMap", "timestamp-not-increasing", "checkpoint %d has timestamp %d, previous %d", idx, ts, o.lastTs))
		}
		set, err1 := bk.BridgeValsetByTimestampMap.Get(v.ctx, ts)
		params, err2 := bk.ValidatorCheckpointParamsMap.Get(v.ctx, ts)
		if err1 != nil || err2 != nil {
			out = append(out, o.v(b.H, "chain", "checkpoint-records", "missing-record", "checkpoint %d at %d lacks its set or params record", idx, ts))
			return out
		}
		es := toEvmSet(set)
		if !sameSet(es, strict) && !sameSet(es, loose) {
			out = append(out, o.v(b.H, "chain", "BridgeValsetByTimestampMap", "checkpoint-set-mismatch", "checkpoint %d stores set %v, staking state gives %v / %v", idx, fmtSet(es), fmtSet(strict), fmtSet(loose)))
		}
		var tot uint64
		for _, m := range es {
			tot += m.Power
		}
		hash := EvmValsetHash(es)
		if !bytes.Equal(hash, params.ValsetHash) {
			out = append(out, o.v(b.H, "chain", "ValidatorCheckpointParams", "valset-hash-inconsistent", "checkpoint %d: stored validator-set hash differs from keccak(abi.encode(set))", idx))
		}
		if params.PowerThreshold != tot*2/3 {
			out = append(out, o.v(b.H, "chain", "ValidatorCheckpointParams", "threshold-inconsistent", "checkpoint %d: threshold %d, two thirds of total power %d is %d", idx, params.PowerThreshold, tot, tot*2/3))
		}
		if !bytes.Equal(params.Checkpoint, EvmDomainSeparate(params.PowerThreshold, ts, hash)) || params.Timestamp != ts {
			out = append(out, o.v(b.H, "chain", "ValidatorCheckpointParams", "checkpoint-inconsistent", "checkpoint %d: stored checkpoint differs from the domain-separated hash of (threshold, timestamp, set hash)", idx))
		}
		o.count("checkpoints_checked")
		o.lastIdx, o.lastSet, o.lastTs = idx, es, ts
		if len(o.samples) < 2 {
			o.sample(fmt.Sprintf("h=%d checkpoint %d ts=%d set=%v threshold=%d", b.H, idx, ts, fmtSet(es), params.PowerThreshold))
		}
	}
	// ---- the light client: every step i-1 -> i whose slots hold more than two thirds of set i-1 must be accepted
	out = append(out, o.relay(c, b, v)...)
	return out
}

func fmtSet(s []EvmValidator) string {
	out := "["
	for i, v := range s {
		if i > 0 {
			out += " "
		}
		out += fmt.Sprintf("%x:%d", v.Addr[:3], v.Power)
	}
	return out + "]"
}

func (o *OracleC16) relay(c *Chain, b *BlockCtx, v *View) []*Violation {
	var out []*Violation
	bk := b.Ref.App.BridgeKeeper
	unbonding := uint64(c.Cfg.UnbondingSec)
	for i := uint64(1); int64(i) <= o.lastIdx; i++ {
		if o.accepted[i] || o.tried[i] > 400 {
			continue
		}
		tsPrev, err1 := bk.ValidatorCheckpointIdxMap.Get(v.ctx, i-1)
		tsCur, err2 := bk.ValidatorCheckpointIdxMap.Get(v.ctx, i)
		if err1 != nil || err2 != nil {
			continue
		}
		prevSet, err1 := bk.BridgeValsetByTimestampMap.Get(v.ctx, tsPrev.Timestamp)
		prevParams, err2 := bk.ValidatorCheckpointParamsMap.Get(v.ctx, tsPrev.Timestamp)
		curParams, err3 := bk.ValidatorCheckpointParamsMap.Get(v.ctx, tsCur.Timestamp)
		sigsRec, err4 := bk.BridgeValsetSignaturesMap.Get(v.ctx, tsCur.Timestamp)
		if err1 != nil || err2 != nil || err3 != nil || err4 != nil {
			continue
		}
		ps := toEvmSet(prevSet)
		if len(sigsRec.Signatures) != len(ps) {
			out = append(out, o.v(b.H, "light-client", "BridgeValsetSignaturesMap", "slot-count", "checkpoint %d has %d signature slots, the previous set has %d members", i, len(sigsRec.Signatures), len(ps)))
			o.tried[i] = 1 << 20
			continue
		}
		sigs := make([]EvmSig, len(ps))
		var signed, total uint64
		for j, m := range ps {
			total += m.Power
			raw := sigsRec.Signatures[j]
			if len(raw) == 0 {
				continue
			}
			s, ok := RelayerSig(raw, curParams.Checkpoint, m.Addr)
			if !ok && o.sentBy[fmt.Sprintf("%d|%x", tsCur.Timestamp, raw)][string(m.Addr)] {
				// the member itself published bytes that are no signature of its own (a Byzantine validator spoiling its
				// own slot): a relayer leaves that slot empty, the member simply has not signed
				o.count("own_slot_spoiled_by_its_owner(treated as unsigned)")
				continue
			}
			if !ok {
				out = append(out, o.v(b.H, "light-client", "BridgeValsetSignaturesMap", "slot-holds-foreign-signature", "checkpoint %d: slot %d does not hold a signature of member %d (%x) of the previous set over the new checkpoint", i, j, j, m.Addr[:4]))
				o.tried[i] = 1 << 20
				continue
			}
			sigs[j] = s
			signed += m.Power
		}
		if signed*3 <= total*2 {
			o.tried[i]++
			continue // not enough signatures yet: nothing is required
		}
		now := uint64(b.Time.Unix())
		if now > tsPrev.Timestamp/1000 && now-tsPrev.Timestamp/1000 > unbonding {
			o.count("steps_inconclusive_contract_stale")
			o.tried[i] = 1 << 20
			continue
		}
		contract := &EvmBridge{Checkpoint: prevParams.Checkpoint, PowerThreshold: prevParams.PowerThreshold, ValTimestamp: tsPrev.Timestamp, UnbondingPeriod: unbonding}
		err := contract.UpdateValidatorSet(curParams.ValsetHash, curParams.PowerThreshold, tsCur.Timestamp, ps, sigs, now)
		if err != nil {
			out = append(out, o.v(b.H, "light-client", "updateValidatorSet", "contract-rejects-step:"+err.Error(), "step %d -> %d: members with %d of %d power signed, yet the contract model rejects the update: %v", i-1, i, signed, total, err))
			o.tried[i] = 1 << 20
			continue
		}
		o.accepted[i] = true
		o.count("steps_accepted_by_contract_model")
	}
	return out
}

func (o *OracleC16) End(c *Chain) []*Violation { return nil }

// recordSenders notes, from the extended commit embedded in the block's accepted proposal, which validator's vote
// extension carried which validator-set signature bytes.
func (o *OracleC16) recordSenders(c *Chain, b *BlockCtx, v *View) {
	var inj app.VoteExtTx
	if b.H <= 1 || len(b.Req.Txs) == 0 || json.Unmarshal(b.Req.Txs[0], &inj) != nil {
		return
	}
	for _, vt := range inj.ExtendedCommitInfo.Votes {
		if vt.BlockIdFlag != 2 {
			continue
		}
		ci := c.consIdxByAddr(vt.Validator.Address)
		if ci < 0 {
			continue
		}
		var ve app.BridgeVoteExtension
		if json.Unmarshal(vt.VoteExtension, &ve) != nil || len(ve.ValsetSignature.Signature) == 0 {
			continue
		}
		e, err := v.n.App.BridgeKeeper.OperatorToEVMAddressMap.Get(v.ctx, ValAddr(c.Keys.ValOp[ci]).String())
		if err != nil {
			continue
		}
		k := fmt.Sprintf("%d|%x", ve.ValsetSignature.Timestamp, ve.ValsetSignature.Signature)
		if o.sentBy[k] == nil {
			o.sentBy[k] = map[string]bool{}
		}
		o.sentBy[k][string(e.EVMAddress)] = true
	}
}
