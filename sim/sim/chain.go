package sim

import (
	"bytes"
	"crypto/sha256"
	"encoding/binary"
	"encoding/hex"
	"encoding/json"
	"fmt"
	"os"
	"sort"
	"time"

	abci "github.com/cometbft/cometbft/abci/types"
	"github.com/cometbft/cometbft/libs/protoio"
	cmtproto "github.com/cometbft/cometbft/proto/tendermint/types"
	dbm "github.com/cosmos/cosmos-db"
	"github.com/spf13/viper"
	"github.com/tellor-io/layer/app"

	"cosmossdk.io/log"

	"github.com/cosmos/cosmos-sdk/baseapp"
	simtestutil "github.com/cosmos/cosmos-sdk/testutil/sims"
	sdk "github.com/cosmos/cosmos-sdk/types"
)

// CometVal is one member of the consensus engine's validator set.
type CometVal struct {
	ConsIdx int
	Addr    []byte
	Power   int64
}

// CrashPoint: where in a height's ABCI call sequence a node dies.
type CrashPoint int

const (
	CrashBeforeProcess CrashPoint = iota
	CrashAfterProcess
	CrashAfterExtend
	CrashAfterFinalize // FinalizeBlock done, Commit never happened
	CrashAfterCommit
	numCrashPoints
)

type CrashEvt struct {
	Node  int        `json:"node"`
	Point CrashPoint `json:"point"`
}

type RoundPlan struct {
	Proposer int   `json:"proposer"` // node idx
	Process  []int `json:"process"`  // node idxs that run ProcessProposal
	Extend   []int `json:"extend"`   // subset that also runs ExtendVote before the round dies
}

type Delivery struct {
	Intent Intent `json:"intent"`
	To     []int  `json:"to"`            // node idxs whose mempool receives it (empty = lost)
	Dup    bool   `json:"dup,omitempty"` // delivered a second time (F2)
}

// HeightPlan is the PRNG-free record of every scheduler decision for one height.
type HeightPlan struct {
	H            int64               `json:"h"`
	DtMs         int64               `json:"dt_ms"`
	Deliver      []Delivery          `json:"deliver,omitempty"`
	Restarts     []int               `json:"restarts,omitempty"`
	CatchUp      []int               `json:"catch_up,omitempty"`
	FailedRounds []RoundPlan         `json:"failed_rounds,omitempty"`
	Proposer     int                 `json:"proposer"`
	MaxTxs       int                 `json:"max_txs"`
	Absent       []int               `json:"absent,omitempty"` // consIdxs whose precommit for h-1 this proposer did not see
	Voters       []int               `json:"voters"`           // node idxs that prevote+precommit the block
	Exec         []int               `json:"exec"`             // node idxs that execute the block now
	Crashes      []CrashEvt          `json:"crashes,omitempty"`
	ExtMut       map[int]ExtMutation `json:"ext_mut,omitempty"` // node idx -> Byzantine vote-extension payload
	KeyringFail  []int               `json:"keyring_fail,omitempty"`
	TamperProbes []ProposalMutation  `json:"tamper_probes,omitempty"`
	PermuteTxs   []int               `json:"permute_txs,omitempty"` // permutation applied to the proposer's mempool order
	ForkIntent   int                 `json:"fork_intent,omitempty"` // intent id whose effect is isolated by a counterfactual fork
}

// TxRecord is what an outside observer learns about one transaction of a block.
type TxRecord struct {
	Height    int64
	Index     int
	IntentID  int // -1 for the injected vote-extension tx or unknown bytes
	Code      uint32
	Codespace string
	Log       string
	GasUsed   int64
	GasWanted int64
	Events    []abci.Event
}

type Block struct {
	Req         *abci.RequestFinalizeBlock
	AppHash     []byte
	ResultsHash []byte
	Round       int32
	// ExtVotes are all precommits cast for this block (with extensions), in validator-set order.
	ExtVotes []abci.ExtendedVoteInfo
}

type Chain struct {
	Cfg      *GenesisCfg
	Keys     *Keys
	Nodes    []*Node
	GenBytes []byte
	Blocks   []*Block
	// ValSets[h] = validator set that votes at height h.
	ValSets  map[int64][]CometVal
	LastTime time.Time
	root     string
	cdcApp   *app.App // scratch app used only for codecs / tx config
	Stats    *Stats
	Accounts *Accounts
	Halted   *Violation
	// Facts: input-level diagnoses one oracle established earlier in the run and later consequences refer to
	// (e.g. which open finding left the dispute escrow short); never influences what the chain does
	Facts map[string]string
}

// Stats counts what actually happened (never what was merely configured).
type Stats struct {
	Blocks, Txs, TxOK, TxFail int
	FaultFired                map[string]int
	MsgAccepted, MsgRejected  map[string]int
	SimulatedMs               int64
	MaxGapMs, MinGapMs        int64
	Executions                int
	Restarts, Replays         int
	Probe                     map[string]int
}

func newStats() *Stats {
	return &Stats{FaultFired: map[string]int{}, MsgAccepted: map[string]int{}, MsgRejected: map[string]int{}, Probe: map[string]int{}, MinGapMs: 1 << 62}
}

func (s *Stats) Fault(kind string) { s.FaultFired[kind]++ }

// InternalError is simulator trouble (never a property violation): exit 2.
type InternalError struct{ Msg string }

func (e *InternalError) Error() string { return "internal: " + e.Msg }

func internalf(f string, a ...any) error { return &InternalError{Msg: fmt.Sprintf(f, a...)} }

func NewChain(cfg *GenesisCfg) (*Chain, error) {
	sdk.DefaultBondDenom = Denom
	viper.Set("key-name", keyName) // read by the vote-extension handler on both keyring paths
	root, err := os.MkdirTemp("", "layersim")
	if err != nil {
		return nil, err
	}
	c := &Chain{Cfg: cfg, Keys: DeriveKeys(cfg), ValSets: map[int64][]CometVal{}, root: root, Stats: newStats()}
	c.cdcApp = app.New(log.NewNopLogger(), dbm.NewMemDB(), nil, true, simtestutil.NewAppOptionsWithFlagHome(root), baseapp.SetChainID(cfg.ChainID))
	c.GenBytes, err = BuildGenesis(c.cdcApp, cfg, c.Keys)
	if err != nil {
		return nil, err
	}
	nVal := len(cfg.ValStakes) + cfg.Candidates
	total := nVal + cfg.Witnesses
	for i := 0; i < total; i++ {
		consIdx := i
		if i >= nVal {
			consIdx = -1
		}
		nc := NodeCfg{}
		if i < len(cfg.NodeCfgs) {
			nc = cfg.NodeCfgs[i]
		}
		n, err := newNode(c, i, consIdx, nc, root)
		if err != nil {
			return nil, err
		}
		if err := n.setupKeyring(); err != nil {
			return nil, err
		}
		n.App = n.newApp()
		n.Up = true
		if err := n.initChain(); err != nil {
			return nil, fmt.Errorf("InitChain node %d: %w", i, err)
		}
		c.Nodes = append(c.Nodes, n)
	}
	var vs []CometVal
	for i, st := range cfg.ValStakes {
		tok := st
		for _, d := range cfg.GenDelegations {
			if d.Val == i {
				tok += d.Amount
			}
		}
		vs = append(vs, CometVal{ConsIdx: i, Addr: c.Keys.ValCons[i].PubKey().Address(), Power: tok / 1_000_000})
	}
	sortVals(vs)
	c.ValSets[1] = vs
	c.ValSets[2] = vs
	c.LastTime = time.Unix(cfg.GenesisUnix, 0).UTC()
	c.Accounts = newAccounts(c)
	return c, nil
}

func (c *Chain) Close() {
	for _, n := range c.Nodes {
		if n.App != nil {
			app.VerifForget(n.App)
		}
	}
	os.RemoveAll(c.root)
}

func sortVals(vs []CometVal) {
	sort.SliceStable(vs, func(i, j int) bool {
		if vs[i].Power != vs[j].Power {
			return vs[i].Power > vs[j].Power
		}
		return bytes.Compare(vs[i].Addr, vs[j].Addr) < 0
	})
}

func (c *Chain) Height() int64 { return int64(len(c.Blocks)) }

func (c *Chain) valSet(h int64) []CometVal {
	if vs, ok := c.ValSets[h]; ok {
		return vs
	}
	// sets are defined up to tip+2; anything beyond repeats the last known
	var best int64
	for k := range c.ValSets {
		if k > best && k <= h {
			best = k
		}
	}
	return c.ValSets[best]
}

func totalPower(vs []CometVal) int64 {
	var t int64
	for _, v := range vs {
		t += v.Power
	}
	return t
}

func (c *Chain) nodeByCons(consIdx int) *Node { return c.Nodes[consIdx] }

// RefNode returns an up node at the chain tip to read committed state from.
func (c *Chain) RefNode() *Node {
	for _, n := range c.Nodes {
		if n.Up && n.App != nil && n.Height() == c.Height() {
			return n
		}
	}
	return nil
}

func (c *Chain) Ctx(n *Node) sdk.Context {
	return n.App.NewUncachedContext(false, cmtproto.Header{Height: n.Height(), Time: c.LastTime, ChainID: c.Cfg.ChainID})
}

func blockHash(h int64) []byte {
	s := sha256.Sum256([]byte(fmt.Sprintf("layersim-block-%d", h)))
	return s[:]
}

func (c *Chain) signExt(consIdx int, ext []byte, h int64, round int32) []byte {
	cve := cmtproto.CanonicalVoteExtension{Extension: ext, Height: h, Round: int64(round), ChainId: c.Cfg.ChainID}
	var buf bytes.Buffer
	if _, err := protoio.NewDelimitedWriter(&buf).WriteMsg(&cve); err != nil {
		panic(err)
	}
	sig, err := c.Keys.ValCons[consIdx].Sign(buf.Bytes())
	if err != nil {
		panic(err)
	}
	return sig
}

// resultsDigest hashes everything the property C01 names: per-tx results with events in order, block events,
// validator updates, consensus-param updates. Logs are excluded (CometBFT excludes them too).
func resultsDigest(res *abci.ResponseFinalizeBlock) []byte {
	h := sha256.New()
	wr := func(b []byte) {
		var l [8]byte
		binary.BigEndian.PutUint64(l[:], uint64(len(b)))
		h.Write(l[:])
		h.Write(b)
	}
	evs := func(es []abci.Event) {
		for _, e := range es {
			wr([]byte(e.Type))
			for _, a := range e.Attributes {
				wr([]byte(a.Key))
				wr([]byte(a.Value))
			}
			wr([]byte{0xff})
		}
	}
	for _, r := range res.TxResults {
		var b [28]byte
		binary.BigEndian.PutUint32(b[0:], r.Code)
		binary.BigEndian.PutUint64(b[4:], uint64(r.GasWanted))
		binary.BigEndian.PutUint64(b[12:], uint64(r.GasUsed))
		wr(b[:])
		wr(r.Data)
		wr([]byte(r.Codespace))
		evs(r.Events)
	}
	evs(res.Events)
	for _, vu := range res.ValidatorUpdates {
		bz, _ := vu.Marshal()
		wr(bz)
	}
	if res.ConsensusParamUpdates != nil {
		bz, _ := res.ConsensusParamUpdates.Marshal()
		wr(bz)
	}
	return h.Sum(nil)
}

// finalizeOn runs FinalizeBlock on one node, converting panics into errors (a real node would die).
func finalizeOn(n *Node, req *abci.RequestFinalizeBlock) (res *abci.ResponseFinalizeBlock, err error) {
	defer func() {
		if r := recover(); r != nil {
			err = fmt.Errorf("PANIC in FinalizeBlock: %v", r)
		}
	}()
	return n.App.FinalizeBlock(req)
}

func contains(xs []int, x int) bool {
	for _, y := range xs {
		if y == x {
			return true
		}
	}
	return false
}

func mustJSON(v any) string {
	b, _ := json.Marshal(v)
	return string(b)
}

func short(b []byte) string {
	s := hex.EncodeToString(b)
	if len(s) > 12 {
		return s[:12]
	}
	return s
}
