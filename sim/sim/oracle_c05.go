package sim

import (
	"fmt"

	reportertypes "github.com/tellor-io/layer/x/reporter/types"

	"cosmossdk.io/math"

	stakingkeeper "github.com/cosmos/cosmos-sdk/x/staking/keeper"
	stakingtypes "github.com/cosmos/cosmos-sdk/x/staking/types"
)

// OracleC05 — the staked-token ledger is always backed by the staking pools.
type OracleC05 struct {
	counters
	returned int64               // entries returned so far (the stated one-unit-per-entry allowance)
	prevRec  map[string]math.Int // "D"/"F"+hashId -> Total
	prevOrig map[string]int
}

func NewOracleC05() *OracleC05 {
	return &OracleC05{counters: newCounters(), prevRec: map[string]math.Int{}, prevOrig: map[string]int{}}
}

func (o *OracleC05) ID() string { return "C05" }

func (o *OracleC05) v(h int64, site, class, f string, a ...any) *Violation {
	return &Violation{Property: "C05", Oracle: "pool-backing", Site: site, Class: class, Height: h, Msg: fmt.Sprintf(f, a...)}
}

func (o *OracleC05) AfterBlock(c *Chain, b *BlockCtx) []*Violation {
	var out []*Violation
	v := c.ViewOf(b.Ref)
	app := b.Ref.App

	// ---- escrow / fee records: origins sum to the recorded total; what was recorded left the pools
	cur := map[string]math.Int{}
	curOrig := map[string]int{}
	recs := func(prefix string, k []byte, d reportertypes.DelegationsAmounts) {
		sum := math.ZeroInt()
		for _, t := range d.TokenOrigins {
			sum = sum.Add(t.Amount)
			if t.Amount.IsNegative() {
				out = append(out, o.v(b.H, prefix+"-record", "negative-origin", "record %s %x has a negative per-backer amount %s", prefix, k[:4], t.Amount))
			}
		}
		key := prefix + string(k)
		cur[key] = d.Total
		curOrig[key] = len(d.TokenOrigins)
		if !sum.Equal(d.Total) {
			out = append(out, o.v(b.H, prefix+"-record", "origins-ne-total", "%s record %x: per-backer amounts sum to %s but the recorded total is %s", map[string]string{"D": "escrowed-stake", "F": "fee-from-stake"}[prefix], k[:4], sum, d.Total))
		}
		o.count("records_checked")
	}
	_ = app.ReporterKeeper.DisputedDelegationAmounts.Walk(v.ctx, nil, func(k []byte, d reportertypes.DelegationsAmounts) (bool, error) {
		recs("D", k, d)
		return false, nil
	})
	_ = app.ReporterKeeper.FeePaidFromStake.Walk(v.ctx, nil, func(k []byte, d reportertypes.DelegationsAmounts) (bool, error) {
		recs("F", k, d)
		return false, nil
	})
	recorded := math.ZeroInt()
	for k, t := range cur {
		if p, ok := o.prevRec[k]; ok {
			if t.GT(p) {
				recorded = recorded.Add(t.Sub(p))
			}
		} else {
			recorded = recorded.Add(t)
		}
	}
	for k := range o.prevRec {
		if _, ok := cur[k]; !ok {
			o.returned += int64(o.prevOrig[k]) + 1 // record settled: its entries were returned
		}
	}
	o.prevRec, o.prevOrig = cur, curOrig
	bondedPool, notBondedPool, disputeMod := modAddr(stakingtypes.BondedPoolName), modAddr(stakingtypes.NotBondedPoolName), modAddr("dispute")
	left := math.ZeroInt()
	for _, ev := range b.AllBankEvents() {
		if ev.Kind == "transfer" && ev.To == disputeMod && (ev.From == bondedPool || ev.From == notBondedPool) && ev.TxIdx >= 0 && b.Txs[ev.TxIdx].Code == 0 {
			left = left.Add(ev.Amount)
		}
	}
	if !left.Equal(recorded) {
		class := "recorded-ne-moved"
		if d := recorded.Sub(left); d.IsPositive() && d.LTE(math.NewInt(int64(len(cur))*4+4)) {
			class = "recorded-exceeds-moved-by-truncation-units"
		} else if sameReportDisputedAgain(v) {
			class = "recorded-ne-moved:report-already-slashed-by-earlier-dispute"
		} else if backerMovedStake(c, v) {
			class = "recorded-ne-moved:backer-moved-stake-since-report"
		}
		out = append(out, o.v(b.H, "stake-taken", class, "block %d: %s left the staking pools for dispute escrow but the per-backer records grew by %s", b.H, left, recorded))
	}
	if left.IsPositive() {
		o.count("blocks_with_stake_taken")
	}
	for i, tr := range b.Txs {
		if tr.Code == 0 && (c.txHasKind(b, i, "withdraw_fee_refund") || c.txHasKind(b, i, "withdraw_tip")) {
			o.returned += 8
		}
	}

	// ---- per-pool backing
	bondedTokens, notBondedTokens := math.ZeroInt(), math.ZeroInt()
	for _, val := range v.Validators() {
		if val.IsBonded() {
			bondedTokens = bondedTokens.Add(val.Tokens)
		} else {
			notBondedTokens = notBondedTokens.Add(val.Tokens)
		}
		if val.Tokens.IsNegative() {
			out = append(out, o.v(b.H, "validator", "negative-tokens", "validator %s has negative tokens %s", val.OperatorAddress, val.Tokens))
		}
	}
	ubdTotal := math.ZeroInt()
	_ = app.StakingKeeper.IterateUnbondingDelegations(v.ctx, func(_ int64, ubd stakingtypes.UnbondingDelegation) bool {
		for _, e := range ubd.Entries {
			ubdTotal = ubdTotal.Add(e.Balance)
		}
		return false
	})
	bp := v.Balance(app.AccountKeeper.GetModuleAddress(stakingtypes.BondedPoolName))
	nbp := v.Balance(app.AccountKeeper.GetModuleAddress(stakingtypes.NotBondedPoolName))
	dust := math.NewInt(o.returned)
	if d := bp.Sub(bondedTokens); d.IsNegative() || d.GT(dust) {
		cls := "bonded-pool-excess"
		if d.IsNegative() {
			cls = "bonded-pool-short"
		}
		out = append(out, o.v(b.H, "bonded-pool", cls, "bonded pool holds %s, bonded validators record %s (difference %s, allowance %s for returned entries)", bp, bondedTokens, d, dust))
	}
	want := notBondedTokens.Add(ubdTotal)
	if d := nbp.Sub(want); d.IsNegative() || d.GT(dust) {
		cls := "not-bonded-pool-excess"
		if d.IsNegative() {
			cls = "not-bonded-pool-short"
		}
		out = append(out, o.v(b.H, "not-bonded-pool", cls, "not-bonded pool holds %s, unbonding/unbonded validators + unbonding entries record %s (difference %s, allowance %s)", nbp, want, d, dust))
	}
	o.count("pool_checks")

	// ---- SDK staking invariants named by the statement
	for _, iv := range []struct {
		name string
		inv  func() (string, bool)
	}{
		{"non-negative-power", func() (string, bool) { return stakingkeeper.NonNegativePowerInvariant(app.StakingKeeper)(v.ctx) }},
		{"positive-delegation", func() (string, bool) { return stakingkeeper.PositiveDelegationInvariant(app.StakingKeeper)(v.ctx) }},
		{"delegator-shares", func() (string, bool) { return stakingkeeper.DelegatorSharesInvariant(app.StakingKeeper)(v.ctx) }},
	} {
		if msg, broken := iv.inv(); broken {
			out = append(out, o.v(b.H, "sdk-invariant", iv.name, "%s", truncate(msg, 300)))
		}
	}
	return out
}

func (o *OracleC05) End(c *Chain) []*Violation { return nil }

// sameReportDisputedAgain: input-level diagnosis — the newest funded dispute names a report that an earlier
// funded dispute (other category) already took stake for.
func sameReportDisputedAgain(v *View) bool {
	ds := v.Disputes()
	for i := range ds {
		for j := 0; j < i; j++ {
			e, l := ds[j].D.InitialEvidence, ds[i].D.InitialEvidence
			if e.Reporter == l.Reporter && e.BlockNumber == l.BlockNumber && string(e.QueryId) == string(l.QueryId) && string(ds[j].D.HashId) != string(ds[i].D.HashId) && ds[j].V != nil && ds[i].V != nil {
				return true
			}
		}
	}
	return false
}

// backerMovedStake: input-level diagnosis — a backer named in an escrow record executed an undelegate or
// redelegate transaction earlier in this history (so its stake is no longer where the report snapshot says).
func backerMovedStake(c *Chain, v *View) bool {
	moved := map[string]bool{}
	for id, rec := range c.Accounts.Outcomes {
		if rec.Code != 0 {
			continue
		}
		in := c.Accounts.Intents[id]
		if in == nil {
			continue
		}
		for _, m := range in.Msgs {
			if m.K == "undelegate" || m.K == "redelegate" {
				moved[string(c.Accounts.Addr(in.Actor))] = true
			}
		}
	}
	found := false
	_ = v.n.App.ReporterKeeper.DisputedDelegationAmounts.Walk(v.ctx, nil, func(k []byte, d reportertypes.DelegationsAmounts) (bool, error) {
		for _, t := range d.TokenOrigins {
			if moved[string(t.DelegatorAddress)] {
				found = true
			}
		}
		return false, nil
	})
	return found
}
