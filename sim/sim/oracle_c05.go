package sim

import (
	"fmt"
	"sort"
	"time"

	"cosmossdk.io/collections"
	sdk "github.com/cosmos/cosmos-sdk/types"

	reportertypes "github.com/tellor-io/layer/x/reporter/types"

	"cosmossdk.io/math"

	stakingkeeper "github.com/cosmos/cosmos-sdk/x/staking/keeper"
	stakingtypes "github.com/cosmos/cosmos-sdk/x/staking/types"
)

// OracleC05 — the staked-token ledger is always backed by the staking pools.
type OracleC05 struct {
	counters
	returned int64               // entries returned so far (the stated one-unit-per-entry allowance)
	prevRec  map[string]math.Int // "D"/"F"+hashId -> Total
	prevOrig map[string]int
}

func NewOracleC05() *OracleC05 {
	return &OracleC05{counters: newCounters(), prevRec: map[string]math.Int{}, prevOrig: map[string]int{}}
}

func (o *OracleC05) ID() string { return "C05" }

func (o *OracleC05) v(h int64, site, class, f string, a ...any) *Violation {
	return &Violation{Property: "C05", Oracle: "pool-backing", Site: site, Class: class, Height: h, Msg: fmt.Sprintf(f, a...)}
}

func (o *OracleC05) AfterBlock(c *Chain, b *BlockCtx) []*Violation {
	var out []*Violation
	v := c.ViewOf(b.Ref)
	app := b.Ref.App

	// ---- escrow / fee records: origins sum to the recorded total; what was recorded left the pools
	cur := map[string]math.Int{}
	curOrig := map[string]int{}
	recs := func(prefix string, k []byte, d reportertypes.DelegationsAmounts) {
		sum := math.ZeroInt()
		for _, t := range d.TokenOrigins {
			sum = sum.Add(t.Amount)
			if t.Amount.IsNegative() {
				out = append(out, o.v(b.H, prefix+"-record", "negative-origin", "record %s %x has a negative per-backer amount %s", prefix, k[:4], t.Amount))
			}
		}
		key := prefix + string(k)
		cur[key] = d.Total
		curOrig[key] = len(d.TokenOrigins)
		if !sum.Equal(d.Total) {
			out = append(out, o.v(b.H, prefix+"-record", "origins-ne-total", "%s record %x: per-backer amounts sum to %s but the recorded total is %s", map[string]string{"D": "escrowed-stake", "F": "fee-from-stake"}[prefix], k[:4], sum, d.Total))
		}
		o.count("records_checked")
	}
	_ = app.ReporterKeeper.DisputedDelegationAmounts.Walk(v.ctx, nil, func(k []byte, d reportertypes.DelegationsAmounts) (bool, error) {
		recs("D", k, d)
		return false, nil
	})
	_ = app.ReporterKeeper.FeePaidFromStake.Walk(v.ctx, nil, func(k []byte, d reportertypes.DelegationsAmounts) (bool, error) {
		recs("F", k, d)
		return false, nil
	})
	recorded := math.ZeroInt()
	for k, t := range cur {
		if p, ok := o.prevRec[k]; ok {
			if t.GT(p) {
				recorded = recorded.Add(t.Sub(p))
			}
		} else {
			recorded = recorded.Add(t)
		}
	}
	for k := range o.prevRec {
		if _, ok := cur[k]; !ok {
			o.returned += int64(o.prevOrig[k]) + 1 // record settled: its entries were returned
		}
	}
	o.prevRec, o.prevOrig = cur, curOrig
	bondedPool, notBondedPool, disputeMod := modAddr(stakingtypes.BondedPoolName), modAddr(stakingtypes.NotBondedPoolName), modAddr("dispute")
	left := math.ZeroInt()
	for _, ev := range b.AllBankEvents() {
		if ev.Kind == "transfer" && ev.To == disputeMod && (ev.From == bondedPool || ev.From == notBondedPool) && ev.TxIdx >= 0 && b.Txs[ev.TxIdx].Code == 0 {
			left = left.Add(ev.Amount)
		}
	}
	if !left.Equal(recorded) {
		class := "recorded-ne-moved"
		if d := recorded.Sub(left); d.IsPositive() && d.LTE(math.NewInt(int64(len(cur))*4+4)) {
			class = "recorded-exceeds-moved-by-truncation-units"
		} else if sameReportDisputedAgain(v) {
			class = "recorded-ne-moved:report-already-slashed-by-earlier-dispute"
		} else if backerMovedStake(c, v) {
			class = "recorded-ne-moved:backer-moved-stake-since-report"
		}
		out = append(out, o.v(b.H, "stake-taken", class, "block %d: %s left the staking pools for dispute escrow but the per-backer records grew by %s", b.H, left, recorded))
	}
	if left.IsPositive() {
		o.count("blocks_with_stake_taken")
	}
	for i, tr := range b.Txs {
		if tr.Code == 0 && (c.txHasKind(b, i, "withdraw_fee_refund") || c.txHasKind(b, i, "withdraw_tip")) {
			o.returned += 8
		}
	}

	// ---- per-pool backing
	bondedTokens, notBondedTokens := math.ZeroInt(), math.ZeroInt()
	for _, val := range v.Validators() {
		if val.IsBonded() {
			bondedTokens = bondedTokens.Add(val.Tokens)
		} else {
			notBondedTokens = notBondedTokens.Add(val.Tokens)
		}
		if val.Tokens.IsNegative() {
			out = append(out, o.v(b.H, "validator", "negative-tokens", "validator %s has negative tokens %s", val.OperatorAddress, val.Tokens))
		}
	}
	ubdTotal := math.ZeroInt()
	_ = app.StakingKeeper.IterateUnbondingDelegations(v.ctx, func(_ int64, ubd stakingtypes.UnbondingDelegation) bool {
		for _, e := range ubd.Entries {
			ubdTotal = ubdTotal.Add(e.Balance)
		}
		return false
	})
	bp := v.Balance(app.AccountKeeper.GetModuleAddress(stakingtypes.BondedPoolName))
	nbp := v.Balance(app.AccountKeeper.GetModuleAddress(stakingtypes.NotBondedPoolName))
	dust := math.NewInt(o.returned)
	if d := bp.Sub(bondedTokens); d.IsNegative() || d.GT(dust) {
		cls := "bonded-pool-excess"
		if d.IsNegative() {
			cls = "bonded-pool-short"
		}
		out = append(out, o.v(b.H, "bonded-pool", cls, "bonded pool holds %s, bonded validators record %s (difference %s, allowance %s for returned entries)", bp, bondedTokens, d, dust))
	}
	want := notBondedTokens.Add(ubdTotal)
	if d := nbp.Sub(want); d.IsNegative() || d.GT(dust) {
		cls := "not-bonded-pool-excess"
		if d.IsNegative() {
			cls = "not-bonded-pool-short"
		}
		out = append(out, o.v(b.H, "not-bonded-pool", cls, "not-bonded pool holds %s, unbonding/unbonded validators + unbonding entries record %s (difference %s, allowance %s)", nbp, want, d, dust))
	}
	o.count("pool_checks")

	// ---- escrow probe on counterfactual branches. For each of the latest report snapshots, on a branch of its own: the first
	// backer behind the snapshot undelegates 1 % and, a block later, 98 % of that delegation through the real staking message server
	// (two unbonding entries, anybody may do that), the SDK's own SlashUnbondingDelegation halves those entries (what a downtime or
	// double-sign slash does to entries begun after the infraction), and the real EscrowReporterStake then takes 5 % of the
	// snapshot's stake (a minor dispute): from the rest of the delegation, all of the first entry and part of the second.
	// Whatever it takes and from where, the pools must stay backed exactly as they were before the call.
	if len(out) == 0 {
		backing := func(x sdk.Context) (math.Int, math.Int) {
			bt, nbt := math.ZeroInt(), math.ZeroInt()
			vals, _ := app.StakingKeeper.GetAllValidators(x)
			for _, val := range vals {
				if val.IsBonded() {
					bt = bt.Add(val.Tokens)
				} else {
					nbt = nbt.Add(val.Tokens)
				}
			}
			_ = app.StakingKeeper.IterateUnbondingDelegations(x, func(_ int64, ubd stakingtypes.UnbondingDelegation) bool {
				for _, e := range ubd.Entries {
					nbt = nbt.Add(e.Balance)
				}
				return false
			})
			b1 := app.BankKeeper.GetBalance(x, app.AccountKeeper.GetModuleAddress(stakingtypes.BondedPoolName), Denom).Amount
			b2 := app.BankKeeper.GetBalance(x, app.AccountKeeper.GetModuleAddress(stakingtypes.NotBondedPoolName), Denom).Amount
			return b1.Sub(bt), b2.Sub(nbt)
		}
		type snap struct {
			q   []byte
			rep []byte
			h   uint64
			d   reportertypes.DelegationsAmounts
		}
		var snaps []snap
		_ = app.ReporterKeeper.Report.Walk(v.ctx, nil, func(k collections.Pair[[]byte, collections.Pair[[]byte, uint64]], d reportertypes.DelegationsAmounts) (bool, error) {
			snaps = append(snaps, snap{append([]byte{}, k.K1()...), append([]byte{}, k.K2().K1()...), k.K2().K2(), d})
			return false, nil
		})
		sort.SliceStable(snaps, func(i, j int) bool { return snaps[i].h > snaps[j].h })
		if len(snaps) > 4 {
			snaps = snaps[:4]
		}
		sms := stakingkeeper.NewMsgServerImpl(app.StakingKeeper)
		for _, sp := range snaps {
			power := sp.d.Total.Quo(math.NewInt(1_000_000))
			if !power.IsPositive() || !sp.d.Total.Equal(power.MulRaw(1_000_000)) || len(sp.d.TokenOrigins) == 0 {
				continue
			}
			or := sp.d.TokenOrigins[0]
			delAddr, valAddr := sdk.AccAddress(or.DelegatorAddress), sdk.ValAddress(or.ValidatorAddress)
			branch, _ := v.ctx.CacheContext()
			del, err := app.StakingKeeper.GetDelegation(branch, delAddr, valAddr)
			if err != nil {
				continue
			}
			val, err := app.StakingKeeper.GetValidator(branch, valAddr)
			if err != nil {
				continue
			}
			held := val.TokensFromShares(del.Shares).TruncateInt()
			if held.LT(math.NewInt(10_000)) {
				continue
			}
			prepared := true
			for pi, part := range []math.Int{held.QuoRaw(100), held.MulRaw(98).QuoRaw(100)} {
				// the second undelegation happens one block later: entries of one block would be merged into one
				branch = branch.WithBlockHeight(branch.BlockHeight() + int64(pi)).WithBlockTime(branch.BlockTime().Add(time.Duration(pi) * time.Second))
				if e := probeCall(func() error {
					_, e := sms.Undelegate(branch, &stakingtypes.MsgUndelegate{DelegatorAddress: delAddr.String(), ValidatorAddress: valAddr.String(), Amount: sdk.NewCoin(Denom, part)})
					return e
				}); e != nil {
					prepared = false
					break
				}
			}
			if !prepared {
				o.count("escrow_probe_undelegation_refused")
				continue
			}
			ubd, err := app.StakingKeeper.GetUnbondingDelegation(branch, delAddr, valAddr)
			if err != nil {
				continue
			}
			if e := probeCall(func() error {
				_, e := app.StakingKeeper.SlashUnbondingDelegation(branch, ubd, 0, math.LegacyNewDecWithPrec(5, 1))
				return e
			}); e != nil {
				continue
			}
			b0, n0 := backing(branch)
			amt := sp.d.Total.MulRaw(5).QuoRaw(100)
			err = probeCall(func() error {
				return app.ReporterKeeper.EscrowReporterStake(branch, sdk.AccAddress(sp.rep), power.Uint64(), sp.h, amt, sp.q, []byte("c05-escrow-probe"))
			})
			o.count("escrow_probe_calls")
			if err != nil {
				o.count("escrow_probe_refused")
				o.count("escrow_probe_refused: " + truncate(err.Error(), 70))
				continue
			}
			b1, n1 := backing(branch)
			tol := math.NewInt(int64(len(sp.d.TokenOrigins))*4 + 4)
			if db, dn := b1.Sub(b0), n1.Sub(n0); db.Abs().GT(tol) || dn.Abs().GT(tol) {
				cls := "not-bonded-pool-short"
				if dn.Abs().LTE(tol) {
					cls = "bonded-pool-short"
					if db.IsPositive() {
						cls = "bonded-pool-excess"
					}
				} else if dn.IsPositive() {
					cls = "not-bonded-pool-excess"
				}
				out = append(out, o.v(b.H, "escrow-probe", cls+":after-sdk-slash-of-unbonding-entries", "backer %s of the report of %s at height %d undelegates 1 %% and 98 %% from %s, the two entries are slashed by half, then 5 %% of the report's stake (%s of %s) is escrowed: bonded pool minus bonded validators changes by %s, not-bonded pool minus (unbonding validators + entries) by %s (tolerance %s)", delAddr, sdk.AccAddress(sp.rep), sp.h, valAddr, amt, sp.d.Total, db, dn, tol))
				break
			}
		}
	}

	// ---- SDK staking invariants named by the statement
	for _, iv := range []struct {
		name string
		inv  func() (string, bool)
	}{
		{"non-negative-power", func() (string, bool) { return stakingkeeper.NonNegativePowerInvariant(app.StakingKeeper)(v.ctx) }},
		{"positive-delegation", func() (string, bool) { return stakingkeeper.PositiveDelegationInvariant(app.StakingKeeper)(v.ctx) }},
		{"delegator-shares", func() (string, bool) { return stakingkeeper.DelegatorSharesInvariant(app.StakingKeeper)(v.ctx) }},
	} {
		if msg, broken := iv.inv(); broken {
			out = append(out, o.v(b.H, "sdk-invariant", iv.name, "%s", truncate(msg, 300)))
		}
	}
	return out
}

func (o *OracleC05) End(c *Chain) []*Violation { return nil }

// sameReportDisputedAgain: input-level diagnosis — the newest funded dispute names a report that an earlier
// funded dispute (other category) already took stake for.
func sameReportDisputedAgain(v *View) bool {
	ds := v.Disputes()
	for i := range ds {
		for j := 0; j < i; j++ {
			e, l := ds[j].D.InitialEvidence, ds[i].D.InitialEvidence
			if e.Reporter == l.Reporter && e.BlockNumber == l.BlockNumber && string(e.QueryId) == string(l.QueryId) && string(ds[j].D.HashId) != string(ds[i].D.HashId) && ds[j].V != nil && ds[i].V != nil {
				return true
			}
		}
	}
	return false
}

// backerMovedStake: input-level diagnosis — a backer named in an escrow record executed an undelegate or
// redelegate transaction earlier in this history (so its stake is no longer where the report snapshot says).
func backerMovedStake(c *Chain, v *View) bool {
	moved := map[string]bool{}
	for id, rec := range c.Accounts.Outcomes {
		if rec.Code != 0 {
			continue
		}
		in := c.Accounts.Intents[id]
		if in == nil {
			continue
		}
		for _, m := range in.Msgs {
			if m.K == "undelegate" || m.K == "redelegate" {
				moved[string(c.Accounts.Addr(in.Actor))] = true
			}
		}
	}
	found := false
	_ = v.n.App.ReporterKeeper.DisputedDelegationAmounts.Walk(v.ctx, nil, func(k []byte, d reportertypes.DelegationsAmounts) (bool, error) {
		for _, t := range d.TokenOrigins {
			if moved[string(t.DelegatorAddress)] {
				found = true
			}
		}
		return false, nil
	})
	return found
}
