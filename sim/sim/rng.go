package sim

import (
	"hash/fnv"
	"math/rand/v2"
)

// Rng is one named sub-stream of the run's single seed. Adding a draw to one
// stream never shifts another stream.
type Rng struct{ r *rand.Rand }

func NewRng(seed uint64, stream string) *Rng {
	h := fnv.New64a()
	h.Write([]byte(stream))
	return &Rng{r: rand.New(rand.NewPCG(seed, h.Sum64()))}
}

func (g *Rng) Intn(n int) int {
	if n <= 0 {
		return 0
	}
	return g.r.IntN(n)
}

func (g *Rng) Int64n(n int64) int64 {
	if n <= 0 {
		return 0
	}
	return g.r.Int64N(n)
}

func (g *Rng) Uint64() uint64 { return g.r.Uint64() }

func (g *Rng) Chance(p float64) bool { return g.r.Float64() < p }

func (g *Rng) Float() float64 { return g.r.Float64() }

// Range returns a value in [lo, hi].
func (g *Rng) Range(lo, hi int64) int64 {
	if hi <= lo {
		return lo
	}
	return lo + g.r.Int64N(hi-lo+1)
}

func Pick[T any](g *Rng, xs []T) T {
	return xs[g.Intn(len(xs))]
}

// Weighted picks index i with probability w[i]/sum(w).
func (g *Rng) Weighted(w []int) int {
	t := 0
	for _, x := range w {
		t += x
	}
	if t <= 0 {
		return 0
	}
	k := g.Intn(t)
	for i, x := range w {
		if k < x {
			return i
		}
		k -= x
	}
	return len(w) - 1
}

func (g *Rng) Perm(n int) []int { return g.r.Perm(n) }

// LogUniform returns a value whose magnitude is roughly uniform in the exponent between lo and hi (both > 0).
func (g *Rng) LogUniform(lo, hi int64) int64 {
	if lo < 1 {
		lo = 1
	}
	if hi <= lo {
		return lo
	}
	// choose bit length
	bl, bh := bitlen(lo), bitlen(hi)
	b := bl + g.Intn(bh-bl+1)
	var v int64
	if b >= 63 {
		v = int64(g.r.Uint64() >> 1)
	} else {
		v = (int64(1) << uint(b-1)) + g.r.Int64N(int64(1)<<uint(b-1))
	}
	if v < lo {
		v = lo
	}
	if v > hi {
		v = hi
	}
	return v
}

func bitlen(x int64) int {
	n := 0
	for x > 0 {
		n++
		x >>= 1
	}
	if n == 0 {
		n = 1
	}
	return n
}
