package sim

import (
	"bytes"
	"crypto/sha256"
	"encoding/hex"
	"encoding/json"
	"fmt"
	"runtime/debug"
	"time"
)

// Trace is the replay file: genesis + every scheduler decision, no PRNG needed to re-execute.
type Trace struct {
	Version   int           `json:"version"`
	Property  string        `json:"property"`
	Profile   string        `json:"profile"`
	Seed      uint64        `json:"seed"`
	Genesis   *GenesisCfg   `json:"genesis"`
	Plans     []*HeightPlan `json:"plans"`
	Violation *Violation    `json:"violation,omitempty"`
	Note      string        `json:"note,omitempty"`
}

type RunResult struct {
	Seed       uint64
	Trace      *Trace
	Violations []*Violation
	Stats      *Stats
	LogHash    string
	Internal   error
	WallMs     int64
	OracleData map[string]map[string]int // per-oracle counters (evidence)
	Samples    map[string][]string
	StateFP    map[string]bool // abstract-state fingerprints reached
}

type RunOpts struct {
	Target      string
	Known       map[string]bool
	Oracles     func(c *Chain) []Oracle
	FullReplay  bool
	QuietBlocks int
}

type logHasher struct{ h [32]byte }

func (l *logHasher) add(parts ...[]byte) {
	s := sha256.New()
	s.Write(l.h[:])
	for _, p := range parts {
		s.Write(p)
	}
	copy(l.h[:], s.Sum(nil))
}

// collect gathers counters from oracles that expose them.
type Counted interface {
	Counters() map[string]int
	Samples() []string
}

func finishResult(res *RunResult, c *Chain, ex *Executor) {
	res.Stats = c.Stats
	res.Violations = ex.Viol
	res.OracleData = map[string]map[string]int{}
	res.Samples = map[string][]string{}
	for _, o := range ex.Oracles {
		if co, ok := o.(Counted); ok {
			res.OracleData[o.ID()] = co.Counters()
			res.Samples[o.ID()] = co.Samples()
		}
	}
}

// RunSeed generates and executes one run.
func RunSeed(seed uint64, prof *Profile, opts RunOpts) (res *RunResult) {
	start := time.Now()
	res = &RunResult{Seed: seed, StateFP: map[string]bool{}}
	defer func() {
		if r := recover(); r != nil {
			res.Internal = internalf("simulator panic: %v\n%s", r, debug.Stack())
		}
		res.WallMs = time.Since(start).Milliseconds()
	}()
	g := NewGen(seed, prof)
	cfg := g.Genesis()
	tr := &Trace{Version: 1, Profile: prof.Name, Seed: seed, Genesis: cfg}
	res.Trace = tr
	c, err := NewChain(cfg)
	if err != nil {
		res.Internal = internalf("NewChain: %v", err)
		return res
	}
	defer c.Close()
	g.Attach(c)
	ex := NewExecutor(c, opts.Oracles(c))
	ex.Target = opts.Target
	ex.Known = opts.Known
	var lh logHasher
	total := g.TotalBlocks
	quiet := opts.QuietBlocks
	for i := 0; i < total+quiet; i++ {
		if i == total {
			g.Quiet = true
		}
		p, err := g.Next()
		if err != nil {
			res.Internal = err
			break
		}
		tr.Plans = append(tr.Plans, p)
		if err := ex.Step(p); err != nil {
			res.Internal = err
			break
		}
		pj, _ := json.Marshal(p)
		if len(c.Blocks) > 0 {
			b := c.Blocks[len(c.Blocks)-1]
			lh.add(pj, b.AppHash, b.ResultsHash)
		}
		if ex.Stop() {
			break
		}
		res.StateFP[c.fingerprint()] = true
	}
	if res.Internal == nil && !ex.Stop() {
		// bounded liveness: after the quiet period every node is up and agrees
		if v := livenessCheck(c); v != nil {
			ex.report(v)
		}
	}
	if res.Internal == nil && !ex.Stop() {
		for _, o := range ex.Oracles {
			ex.report(o.End(c)...)
		}
	}
	if res.Internal == nil && !ex.Stop() && opts.FullReplay {
		ex.report(fullReplay(c)...)
	}
	for _, v := range ex.Viol {
		lh.add([]byte(v.Signature()))
	}
	res.LogHash = hex.EncodeToString(lh.h[:])
	// observation, not a judgement: iterators the application opened on its store and never closed
	for _, n := range c.Nodes {
		if n.sdb != nil {
			if k := n.sdb.NeverClosed(); k > 0 {
				c.Stats.Probe["db_iterators_never_closed(observation)"] += int(k)
			}
		}
	}
	finishResult(res, c, ex)
	if len(ex.Viol) > 0 {
		tr.Violation = ex.Viol[0]
	}
	return res
}

// Replay executes a recorded trace (possibly edited by the minimiser). No PRNG involved.
func Replay(tr *Trace, opts RunOpts) (res *RunResult) {
	start := time.Now()
	res = &RunResult{Seed: tr.Seed, Trace: tr, StateFP: map[string]bool{}}
	defer func() {
		if r := recover(); r != nil {
			res.Internal = internalf("simulator panic in replay: %v\n%s", r, debug.Stack())
		}
		res.WallMs = time.Since(start).Milliseconds()
	}()
	c, err := NewChain(tr.Genesis)
	if err != nil {
		res.Internal = internalf("NewChain: %v", err)
		return res
	}
	defer c.Close()
	ex := NewExecutor(c, opts.Oracles(c))
	ex.Target = opts.Target
	ex.Known = opts.Known
	var lh logHasher
	for _, p0 := range tr.Plans {
		p := sanitizePlan(c, p0)
		if err := ex.Step(p); err != nil {
			res.Internal = err
			break
		}
		if DebugReplay && DebugFrom > 0 && c.Height() >= DebugFrom {
			DebugState(c)
		}
		pj, _ := json.Marshal(p0)
		if len(c.Blocks) > 0 {
			b := c.Blocks[len(c.Blocks)-1]
			lh.add(pj, b.AppHash, b.ResultsHash)
		}
		if ex.Stop() {
			break
		}
	}
	if res.Internal == nil && !ex.Stop() {
		if v := livenessCheck(c); v != nil && tr.Violation != nil && tr.Violation.Oracle == "liveness" {
			ex.report(v)
		}
	}
	if res.Internal == nil && !ex.Stop() {
		for _, o := range ex.Oracles {
			ex.report(o.End(c)...)
		}
	}
	if res.Internal == nil && !ex.Stop() && opts.FullReplay {
		ex.report(fullReplay(c)...)
	}
	for _, v := range ex.Viol {
		lh.add([]byte(v.Signature()))
	}
	res.LogHash = hex.EncodeToString(lh.h[:])
	finishResult(res, c, ex)
	if DebugReplay {
		DebugState(c)
	}
	return res
}

// DebugReplay makes Replay print the final committed state.
var DebugReplay bool

// DebugFrom: print the state after every block from this height on.
var DebugFrom int64

// sanitizePlan makes an edited plan executable: heights renumbered, voters/exec restricted to nodes
// that are actually able (the minimiser may have deleted the crash/restart that the original relied on).
func sanitizePlan(c *Chain, p0 *HeightPlan) *HeightPlan {
	p := *p0
	p.H = c.Height() + 1
	return &p
}

func livenessCheck(c *Chain) *Violation {
	tip := c.Height()
	var hash []byte
	for _, n := range c.Nodes {
		if !n.Up || n.Height() != tip {
			return &Violation{Property: "C02", Oracle: "liveness", Site: "quiet-period", Class: "node-behind", Height: tip,
				Msg: fmt.Sprintf("after the quiet period node %d is up=%v at height %d, tip %d", n.Idx, n.Up, n.Height(), tip)}
		}
		ah := n.App.LastCommitID().Hash
		if hash == nil {
			hash = ah
		} else if !bytes.Equal(hash, ah) {
			return &Violation{Property: "C01", Oracle: "hash-equality", Site: "quiet-period", Class: "divergence-app hash", Height: tip,
				Msg: fmt.Sprintf("after the quiet period node %d has commit hash %s, others %s", n.Idx, short(ah), short(hash))}
		}
	}
	return nil
}

// fullReplay re-executes the whole block log on a fresh app over a fresh DB (C01 oracle c).
func fullReplay(c *Chain) []*Violation {
	n, err := newNode(c, len(c.Nodes)+1000, -1, NodeCfg{Pruning: "nothing"}, c.root)
	if err != nil {
		return nil
	}
	n.App = n.newApp()
	n.Up = true
	if err := n.initChain(); err != nil {
		return []*Violation{{Property: "C01", Oracle: "full-replay", Site: "InitChain", Class: "error", Msg: err.Error()}}
	}
	defer n.Crash()
	for _, b := range c.Blocks {
		res, err := finalizeOn(n, b.Req)
		if err != nil {
			return []*Violation{{Property: "C01", Oracle: "full-replay", Site: "FinalizeBlock", Class: "replay-error", Height: b.Req.Height,
				Msg: fmt.Sprintf("full replay failed at block %d: %v", b.Req.Height, err)}}
		}
		if _, err := n.App.Commit(); err != nil {
			return nil
		}
		c.Stats.Executions++
		if !bytes.Equal(res.AppHash, b.AppHash) || !bytes.Equal(resultsDigest(res), b.ResultsHash) {
			what := "app hash"
			if bytes.Equal(res.AppHash, b.AppHash) {
				what = "results/events"
			}
			return []*Violation{{Property: "C01", Oracle: "hash-equality", Site: "full-replay", Class: "divergence-" + what, Height: b.Req.Height,
				Msg: fmt.Sprintf("full replay of block %d on a fresh node: %s differs", b.Req.Height, what)}}
		}
	}
	c.Stats.Probe["full_replays"]++
	return nil
}

// fingerprint abstracts the chain state for the "distinct states reached" measure.
func (c *Chain) fingerprint() string {
	v := c.View()
	if v == nil {
		return "?"
	}
	qs := v.Queries()
	open, tipped, withRep := 0, 0, 0
	for _, q := range qs {
		open++
		if q.Meta.Amount.IsPositive() {
			tipped++
		}
		if q.Meta.HasRevealedReports {
			withRep++
		}
	}
	nb := 0
	for _, val := range v.Validators() {
		if val.IsBonded() {
			nb++
		}
	}
	down := 0
	for _, n := range c.Nodes {
		if !n.Up {
			down++
		}
	}
	return fmt.Sprintf("q%d/t%d/r%d/rep%d/sel%d/bond%d/down%d/cyc%d", open, tipped, withRep, len(v.Reporters()), len(v.Selectors()), nb, down, v.CycleSeq())
}

// SchedHash hashes the event-kind sequence of a run (distinct-interleavings measure).
func SchedHash(t *Trace) string {
	if t == nil {
		return ""
	}
	h := sha256.New()
	for _, p := range t.Plans {
		gap := "n"
		switch {
		case p.DtMs <= 1:
			gap = "1ms"
		case p.DtMs >= 3600_000:
			gap = "big"
		}
		fmt.Fprintf(h, "|%d/%v/%v/%v/%d/%s/", p.Proposer, p.Voters, p.Absent, p.Crashes, len(p.FailedRounds), gap)
		for _, d := range p.Deliver {
			k := ""
			if len(d.Intent.Msgs) > 0 {
				k = d.Intent.Msgs[0].K
			}
			fmt.Fprintf(h, "%s>%v,", k, d.To)
		}
	}
	return hex.EncodeToString(h.Sum(nil))[:16]
}

// SigHash is a short stable hash of a violation signature (used in replay file names).
func SigHash(sig string) string {
	h := sha256.Sum256([]byte(sig))
	return hex.EncodeToString(h[:4])
}
