package sim

import (
	"encoding/hex"
	"fmt"

	sdk "github.com/cosmos/cosmos-sdk/types"
)

type counters struct {
	c       map[string]int
	samples []string
}

func newCounters() counters { return counters{c: map[string]int{}} }

func (k *counters) count(name string)      { k.c[name]++ }
func (k *counters) add(name string, n int) { k.c[name] += n }
func (k *counters) sample(s string) {
	if len(k.samples) < 4 {
		k.samples = append(k.samples, s)
	}
}
func (k *counters) Counters() map[string]int { return k.c }
func (k *counters) Samples() []string        { return k.samples }

func hexDecode(s string) ([]byte, error) { return hex.DecodeString(s) }

// probeCall runs a message-server call of a probe the way baseapp's runTx would: a panic inside the handler
// is a refused message, not a crash of the simulator.
func probeCall(f func() error) (err error) {
	defer func() {
		if r := recover(); r != nil {
			err = fmt.Errorf("panic in handler: %v", r)
		}
	}()
	return f()
}

// probeMsg delivers one message of a probe on ctx with transaction semantics: the handler runs on a branch of
// ctx that is written back only if it returns without error or panic.
func probeMsg(ctx sdk.Context, f func(ctx sdk.Context) error) error {
	child, write := ctx.CacheContext()
	err := probeCall(func() error { return f(child) })
	if err == nil {
		write()
	}
	return err
}
