package sim

import "encoding/hex"

type counters struct {
	c       map[string]int
	samples []string
}

func newCounters() counters { return counters{c: map[string]int{}} }

func (k *counters) count(name string)      { k.c[name]++ }
func (k *counters) add(name string, n int) { k.c[name] += n }
func (k *counters) sample(s string) {
	if len(k.samples) < 4 {
		k.samples = append(k.samples, s)
	}
}
func (k *counters) Counters() map[string]int { return k.c }
func (k *counters) Samples() []string        { return k.samples }

func hexDecode(s string) ([]byte, error) { return hex.DecodeString(s) }
