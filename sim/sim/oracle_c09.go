package sim

import (
	"fmt"
	"math/big"
	"sort"

	oracletypes "github.com/tellor-io/layer/x/oracle/types"

	sdk "github.com/cosmos/cosmos-sdk/types"
)

// OracleC09 — each reward is split exactly, non-negatively and in proportion to backing stake.
// Exact-rational reference (ref.Rewards) fed with inputs: the tips carried by the rounds that aggregate,
// the reward-pool balance, the aggregates' reporters and powers, the accepted commission rates and the
// stake snapshots recorded at report time. Output compared: the change of every selector's credit.
type OracleC09 struct {
	counters
	prevTips  map[string]*big.Rat
	prevQ     map[string]oracletypes.QueryMeta
	prevTBR   *big.Int
	have      bool
	everCycle map[string]bool // query ids that were in the cycle list at some block end (governance may replace the list while a round is open)
}

func NewOracleC09() *OracleC09 {
	return &OracleC09{counters: newCounters(), prevTips: map[string]*big.Rat{}, prevQ: map[string]oracletypes.QueryMeta{}, everCycle: map[string]bool{}}
}

func (o *OracleC09) ID() string { return "C09" }

func (o *OracleC09) v(h int64, site, class, f string, a ...any) *Violation {
	return &Violation{Property: "C09", Oracle: "reward-split", Site: site, Class: class, Height: h, Msg: fmt.Sprintf(f, a...)}
}

var (
	tolSum   = big.NewRat(1, 1_000_000_000_000) // n x 10^-18 with generous n
	tolShare = big.NewRat(1, 100)               // proportionality: the chain rounds power/total to 18 decimals before scaling by the reward
)

func absRat(x *big.Rat) *big.Rat { return new(big.Rat).Abs(x) }

func (o *OracleC09) AfterBlock(c *Chain, b *BlockCtx) []*Violation {
	var out []*Violation
	v := c.ViewOf(b.Ref)
	h := uint64(b.H)
	curTips := map[string]*big.Rat{}
	for k, d := range v.SelectorTips() {
		curTips[k] = decToRat(d)
	}
	curQ := map[string]oracletypes.QueryMeta{}
	for _, q := range v.Queries() {
		curQ[roundKey(q.QueryID, q.Meta.Id)] = q.Meta
	}
	for _, qd := range v.Cyclelist() {
		o.everCycle[string(QueryID(qd))] = true
	}
	for _, p := range c.Cfg.CycleList {
		if qd, err := SpotQueryData(p[0], p[1]); err == nil {
			o.everCycle[string(QueryID(qd))] = true
		}
	}
	tbrNow := v.ModuleBalance("time_based_rewards").BigInt()
	defer func() { o.prevTips, o.prevQ, o.prevTBR, o.have = curTips, curQ, tbrNow, true }()
	if !o.have {
		return nil
	}

	// ---- inputs
	netTip := map[string]*big.Int{} // qid -> net tips added in this block
	withdrew := map[string]bool{}
	for i, tr := range b.Txs {
		in := c.IntentOfTx(b, i)
		if in == nil || tr.Code != 0 {
			continue
		}
		for mi := range in.Msgs {
			m := &in.Msgs[mi]
			switch m.K {
			case "tip":
				amt := parseInt(m.N).BigInt()
				burn := new(big.Int).Div(new(big.Int).Mul(amt, big.NewInt(2)), big.NewInt(100))
				qid := string(QueryID(QueryDataOf(m.Q)))
				if netTip[qid] == nil {
					netTip[qid] = new(big.Int)
				}
				netTip[qid].Add(netTip[qid], new(big.Int).Sub(amt, burn))
			case "withdraw_tip":
				who := in.Actor
				if m.As != nil {
					who = *m.As
				}
				withdrew[string(c.Accounts.Addr(who))] = true
			}
		}
	}
	mintedToTBR := new(big.Int)
	tbrAddr := modAddr("time_based_rewards")
	for _, ev := range b.AllBankEvents() {
		if ev.Kind == "transfer" && ev.To == tbrAddr && ev.TxIdx < 0 && ev.Mode == "BeginBlock" {
			mintedToTBR.Add(mintedToTBR, ev.Amount.BigInt())
		}
	}
	var aggs []AggInfo
	for _, a := range v.Aggregates() {
		if a.Agg.Height == h && len(a.Agg.Reporters) > 0 {
			aggs = append(aggs, a)
		}
	}
	if len(aggs) == 0 {
		// no payout: credits may only fall through withdrawals
		for k, p := range o.prevTips {
			cur := curTips[k]
			if cur == nil {
				cur = new(big.Rat)
			}
			if cur.Cmp(p) > 0 {
				out = append(out, o.v(b.H, "credits", "credit-without-payout", "credit of %s grew from %s to %s in a block without any aggregate", sdk.AccAddress([]byte(k)), p.FloatString(6), cur.FloatString(6)))
			}
		}
		return out
	}

	// ---- observed credit changes (withdrawals of this block added back)
	obs := map[string]*big.Rat{}
	keys := map[string]bool{}
	for k := range curTips {
		keys[k] = true
	}
	for k := range o.prevTips {
		keys[k] = true
	}
	for k := range keys {
		p, cu := o.prevTips[k], curTips[k]
		if p == nil {
			p = new(big.Rat)
		}
		if cu == nil {
			cu = new(big.Rat)
		}
		base := new(big.Rat).Set(p)
		if withdrew[k] {
			fl := new(big.Int).Div(p.Num(), p.Denom())
			base.Sub(base, new(big.Rat).SetInt(fl))
		}
		d := new(big.Rat).Sub(cu, base)
		if d.Sign() != 0 {
			obs[k] = d
		}
	}
	// non-negative
	for k, d := range obs {
		if d.Cmp(new(big.Rat).Neg(tolSum)) < 0 {
			cls := "negative-credit"
			if reporterWithCommissionAboveOne(v) {
				cls += ":commission-rate-outside-0-1"
			}
			out = append(out, o.v(b.H, "credits", cls, "selector %s was credited a negative amount %s in the payout of block %d", sdk.AccAddress([]byte(k)), d.FloatString(6), b.H))
		}
	}

	// ---- reference
	type occ struct {
		agg   *AggInfo
		power uint64
		block uint64
	}
	exp := map[string]*big.Rat{}            // per delegator, exact when derivable
	expRep := map[string]*big.Rat{}         // per reporter total
	delegOf := map[string]map[string]bool{} // reporter -> delegators in its snapshots
	multiSnap := map[string]bool{}
	addExp := func(m map[string]*big.Rat, k string, x *big.Rat) {
		if m[k] == nil {
			m[k] = new(big.Rat)
		}
		m[k].Add(m[k], x)
	}
	total := new(big.Rat)
	payout := func(list []*AggInfo, R *big.Int, label string) {
		if R.Sign() == 0 {
			return
		}
		sumP := new(big.Int)
		byRep := map[string][]occ{}
		var order []string
		for _, a := range list {
			for _, r := range a.Agg.Reporters {
				sumP.Add(sumP, new(big.Int).SetUint64(r.Power))
				if _, ok := byRep[r.Reporter]; !ok {
					order = append(order, r.Reporter)
				}
				byRep[r.Reporter] = append(byRep[r.Reporter], occ{a, r.Power, r.BlockNumber})
			}
		}
		if sumP.Sign() == 0 {
			return
		}
		total.Add(total, new(big.Rat).SetInt(R))
		sort.Strings(order)
		for _, rep := range order {
			occs := byRep[rep]
			pw := new(big.Int)
			for _, oc := range occs {
				pw.Add(pw, new(big.Int).SetUint64(oc.power))
			}
			share := new(big.Rat).Mul(new(big.Rat).SetInt(R), new(big.Rat).SetFrac(pw, sumP))
			addExp(expRep, rep, share)
			addr, err := sdk.AccAddressFromBech32(rep)
			if err != nil {
				continue
			}
			rec, err := v.n.App.ReporterKeeper.Reporters.Get(v.ctx, addr)
			if err != nil {
				continue
			}
			rate := decToRat(rec.CommissionRate)
			if len(occs) > 1 {
				o.count("reporter_in_several_aggregates_of_one_payout")
				p0 := occs[0].power
				for _, oc := range occs {
					if oc.power != p0 {
						o.count("...with_different_powers")
					}
				}
			}
			// split by the snapshot of the first occurrence (any single one is accepted; see multiSnap)
			snap, err := v.n.App.ReporterKeeper.Report.Get(v.ctx, collJoinReport(occs[0].agg.QueryID, addr, occs[0].block))
			if err != nil {
				continue
			}
			if len(occs) > 1 {
				multiSnap[rep] = true
			}
			if delegOf[rep] == nil {
				delegOf[rep] = map[string]bool{}
			}
			comm := new(big.Rat).Mul(share, rate)
			rest := new(big.Rat).Sub(share, comm)
			addExp(exp, string(addr), comm)
			delegOf[rep][string(addr)] = true
			tot := snap.Total.BigInt()
			for _, t := range snap.TokenOrigins {
				delegOf[rep][string(t.DelegatorAddress)] = true
				if tot.Sign() > 0 {
					addExp(exp, string(t.DelegatorAddress), new(big.Rat).Mul(rest, new(big.Rat).SetFrac(t.Amount.BigInt(), tot)))
				}
			}
		}
		o.count("payouts_" + label)
	}
	// tip payouts: one per aggregate whose round carried a tip
	for i := range aggs {
		a := &aggs[i]
		k := roundKey(a.QueryID, a.Agg.MetaId)
		R := new(big.Int)
		if pm, ok := o.prevQ[k]; ok {
			R.Add(R, pm.Amount.BigInt())
		}
		if nt := netTip[string(a.QueryID)]; nt != nil {
			R.Add(R, nt)
		}
		payout([]*AggInfo{a}, R, "tip")
	}
	// time-based rewards: paid = pool before EndBlock - pool now
	tbrBefore := new(big.Int).Add(o.prevTBR, mintedToTBR)
	paid := new(big.Int).Sub(tbrBefore, tbrNow)
	cycle := o.everCycle
	var eligible []*AggInfo
	reps := v.Reports()
	for i := range aggs {
		a := &aggs[i]
		flagged := false
		for _, r := range reps {
			if r.MetaID == a.Agg.MetaId && eqBytes(r.QueryID, a.QueryID) && r.Rep.Cyclelist {
				flagged = true
			}
		}
		isDep := false
		for _, r := range reps {
			if r.MetaID == a.Agg.MetaId && eqBytes(r.QueryID, a.QueryID) && r.Rep.QueryType == "TRBBridge" {
				isDep = true
			}
		}
		if cycle[string(a.QueryID)] || isDep {
			if flagged {
				eligible = append(eligible, a)
			}
		} else if flagged && paid.Sign() > 0 {
			out = append(out, o.v(b.H, "tbr", "tbr-to-ineligible-aggregate", "time-based rewards were paid in block %d for the aggregate of query %x, which is neither a cycle-list nor a bridge-deposit query", b.H, a.QueryID[:4]))
		}
	}
	if paid.Sign() > 0 {
		if tbrNow.Sign() != 0 {
			out = append(out, o.v(b.H, "tbr", "tbr-not-used-up", "time-based reward payout of block %d left %s in the reward pool (paid %s of %s)", b.H, tbrNow, paid, tbrBefore))
		}
		payout(eligible, paid, "tbr")
		o.count("tbr_payout_blocks")
	} else if paid.Sign() < 0 {
		out = append(out, o.v(b.H, "tbr", "tbr-pool-grew", "reward pool grew by %s beyond the minted amount", new(big.Int).Neg(paid)))
	}

	// ---- compare
	sumObs := new(big.Rat)
	for _, d := range obs {
		sumObs.Add(sumObs, d)
	}
	if absRat(new(big.Rat).Sub(sumObs, total)).Cmp(tolSum) > 0 {
		cls := "sum-of-credits-ne-reward"
		if reporterWithCommissionAboveOne(v) {
			cls += ":commission-rate-outside-0-1"
		}
		out = append(out, o.v(b.H, "credits", cls, "block %d: rewards of %s were paid (tips + time-based) but the credits changed by %s in total (time-based paid %s = pool before %s [prev %s + minted %s] - pool now %s; %d aggregates, %d eligible)", b.H, total.FloatString(6), sumObs.FloatString(18), paid, tbrBefore, o.prevTBR, mintedToTBR, tbrNow, len(aggs), len(eligible)))
	}
	// per reporter (only when no delegator backs two of the paid reporters)
	owner := map[string]string{}
	clash := map[string]bool{}
	for rep, ds := range delegOf {
		for d := range ds {
			if o2, ok := owner[d]; ok && o2 != rep {
				clash[rep], clash[o2] = true, true
			}
			owner[d] = rep
		}
	}
	for rep, e := range expRep {
		if clash[rep] {
			continue
		}
		got := new(big.Rat)
		for d := range delegOf[rep] {
			if obs[d] != nil {
				got.Add(got, obs[d])
			}
		}
		o.count("reporter_shares_checked")
		if absRat(new(big.Rat).Sub(got, e)).Cmp(tolShare) > 0 {
			cls := "reporter-share-not-proportional"
			if reporterWithCommissionAboveOne(v) {
				cls += ":commission-rate-outside-0-1"
			} else if multiSnap[rep] {
				cls += ":reporter-in-several-aggregates"
			}
			out = append(out, o.v(b.H, "credits", cls, "block %d: reporter %s and its selectors were credited %s, proportional share of the rewards is %s", b.H, rep, got.FloatString(6), e.FloatString(6)))
		}
	}
	// per selector (single-snapshot reporters only)
	for d, e := range exp {
		rep := owner[d]
		if clash[rep] || multiSnap[rep] {
			continue
		}
		got := obs[d]
		if got == nil {
			got = new(big.Rat)
		}
		o.count("selector_credits_checked")
		if absRat(new(big.Rat).Sub(got, e)).Cmp(tolShare) > 0 {
			cls := "selector-split"
			if reporterWithCommissionAboveOne(v) {
				cls += ":commission-rate-outside-0-1"
			}
			out = append(out, o.v(b.H, "credits", cls, "block %d: selector %s of reporter %s credited %s, expected %s (commission once to the reporter, remainder by recorded stake)", b.H, sdk.AccAddress([]byte(d)), rep, got.FloatString(6), e.FloatString(6)))
		}
	}
	if len(out) == 0 && len(o.samples) < 2 && total.Sign() > 0 {
		o.sample(fmt.Sprintf("h=%d aggregates=%d reward=%s (tbr %s) selectors credited=%d", b.H, len(aggs), total.FloatString(0), paid, len(obs)))
	}
	return out
}

func (o *OracleC09) End(c *Chain) []*Violation { return nil }
