package sim

import (
	"bytes"
	"crypto/sha256"
	"errors"
	"math/big"

	"github.com/ethereum/go-ethereum/crypto"
)

// evmmodel — a Go transliteration of the parts of BlobstreamO.sol the properties speak about, written from
// the Solidity source with this package's own ABI encoder. Trusted primitives: keccak-256, sha-256 and
// secp256k1 public-key recovery (go-ethereum's Ecrecover).

type EvmValidator struct {
	Addr  []byte // 20 bytes
	Power uint64
}

type EvmSig struct {
	V    byte
	R, S []byte // 32 bytes each; all-zero = absent
}

func (s EvmSig) zero() bool {
	z := make([]byte, 32)
	return s.V == 0 && (len(s.R) == 0 || bytes.Equal(s.R, z)) && (len(s.S) == 0 || bytes.Equal(s.S, z))
}

// EvmBridge is the contract's storage.
type EvmBridge struct {
	Checkpoint      []byte
	PowerThreshold  uint64
	ValTimestamp    uint64 // ms
	UnbondingPeriod uint64 // seconds
}

var (
	ErrMalformedSet     = errors.New("MalformedCurrentValidatorSet")
	ErrTimestamp        = errors.New("ValidatorTimestampMustIncrease")
	ErrThreshold        = errors.New("InvalidPowerThreshold")
	ErrSuppliedSet      = errors.New("SuppliedValidatorSetInvalid")
	ErrStale            = errors.New("StaleValidatorSet")
	ErrInvalidSignature = errors.New("InvalidSignature")
	ErrInsufficient     = errors.New("InsufficientVotingPower")
)

var validatorSetDomainSep = func() []byte {
	b := make([]byte, 32)
	copy(b, []byte("checkpoint"))
	return b
}()

var attestationDomainSep = func() []byte {
	b := make([]byte, 32)
	copy(b, []byte("tellorCurrentAttestation"))
	return b
}()

// EvmValsetHash = keccak256(abi.encode(Validator[]))
func EvmValsetHash(set []EvmValidator) []byte {
	var elems [][]byte
	for _, v := range set {
		e := append(append([]byte{}, word(v.Addr)...), word(new(big.Int).SetUint64(v.Power).Bytes())...)
		elems = append(elems, e)
	}
	return Keccak(AbiEncode(AbiStaticArray(elems)))
}

// EvmDomainSeparate = keccak256(abi.encode(VALIDATOR_SET_HASH_DOMAIN_SEPARATOR, threshold, timestamp, valsetHash))
func EvmDomainSeparate(threshold, timestamp uint64, valsetHash []byte) []byte {
	return Keccak(AbiEncode(AbiBytes32(validatorSetDomainSep), AbiUint64(threshold), AbiUint64(timestamp), AbiBytes32(valsetHash)))
}

// EvmAttestationDigest = keccak256(abi.encode(sep, queryId, value(bytes), timestamp, power, prev, next, checkpoint, attestationTimestamp))
func EvmAttestationDigest(queryID, value []byte, ts, power, prev, next uint64, checkpoint []byte, attTs uint64) []byte {
	return Keccak(AbiEncode(AbiBytes32(attestationDomainSep), AbiBytes32(queryID), AbiBytes(value), AbiUint64(ts), AbiUint64(power), AbiUint64(prev), AbiUint64(next), AbiBytes32(checkpoint), AbiUint64(attTs)))
}

// evmVerifySig: _signer == ecrecover(sha256(abi.encodePacked(digest)), v, r, s)
func evmVerifySig(signer, digest []byte, sig EvmSig) bool {
	h := sha256.Sum256(digest)
	if sig.V != 27 && sig.V != 28 {
		return false
	}
	rs := append(append(append([]byte{}, word(sig.R)...), word(sig.S)...), sig.V-27)
	pub, err := crypto.Ecrecover(h[:], rs)
	if err != nil || len(pub) != 65 {
		return false
	}
	addr := Keccak(pub[1:])[12:]
	return bytes.Equal(addr, signer)
}

func (b *EvmBridge) checkSigs(set []EvmValidator, sigs []EvmSig, digest []byte, threshold uint64, nowSec uint64) error {
	if nowSec > b.ValTimestamp/1000 && nowSec-b.ValTimestamp/1000 > b.UnbondingPeriod {
		return ErrStale
	}
	var cum uint64
	for i := range set {
		if sigs[i].zero() {
			continue
		}
		if !evmVerifySig(set[i].Addr, digest, sigs[i]) {
			return ErrInvalidSignature
		}
		cum += set[i].Power
		if cum >= threshold {
			break
		}
	}
	if cum < threshold {
		return ErrInsufficient
	}
	return nil
}

// UpdateValidatorSet is BlobstreamO.updateValidatorSet.
func (b *EvmBridge) UpdateValidatorSet(newHash []byte, newThreshold, newTimestamp uint64, current []EvmValidator, sigs []EvmSig, nowSec uint64) error {
	if len(current) != len(sigs) {
		return ErrMalformedSet
	}
	if newTimestamp < b.ValTimestamp {
		return ErrTimestamp
	}
	if newThreshold == 0 {
		return ErrThreshold
	}
	if !bytes.Equal(EvmDomainSeparate(b.PowerThreshold, b.ValTimestamp, EvmValsetHash(current)), b.Checkpoint) {
		return ErrSuppliedSet
	}
	newCp := EvmDomainSeparate(newThreshold, newTimestamp, newHash)
	if err := b.checkSigs(current, sigs, newCp, b.PowerThreshold, nowSec); err != nil {
		return err
	}
	b.Checkpoint, b.PowerThreshold, b.ValTimestamp = newCp, newThreshold, newTimestamp
	return nil
}

// VerifyOracleData is BlobstreamO.verifyOracleData.
func (b *EvmBridge) VerifyOracleData(queryID, value []byte, ts, power, prev, next, attTs uint64, current []EvmValidator, sigs []EvmSig, nowSec uint64) error {
	if len(current) != len(sigs) {
		return ErrMalformedSet
	}
	if !bytes.Equal(EvmDomainSeparate(b.PowerThreshold, b.ValTimestamp, EvmValsetHash(current)), b.Checkpoint) {
		return ErrSuppliedSet
	}
	d := EvmAttestationDigest(queryID, value, ts, power, prev, next, b.Checkpoint, attTs)
	return b.checkSigs(current, sigs, d, b.PowerThreshold, nowSec)
}

// RelayerSig turns the chain's 64-byte (r||s) signature into a contract signature for the member expected in
// that slot by trying both recovery ids, as a relayer does. ok=false: the bytes are no signature of that member.
func RelayerSig(raw, digest, member []byte) (EvmSig, bool) {
	if len(raw) < 64 {
		return EvmSig{}, false
	}
	for _, v := range []byte{27, 28} {
		s := EvmSig{V: v, R: raw[:32], S: raw[32:64]}
		if evmVerifySig(member, digest, s) {
			return s, true
		}
	}
	return EvmSig{}, false
}
