package sim

import (
	"fmt"
	"math/big"
	"sort"

	disputekeeper "github.com/tellor-io/layer/x/dispute/keeper"
	disputetypes "github.com/tellor-io/layer/x/dispute/types"

	"cosmossdk.io/math"

	sdk "github.com/cosmos/cosmos-sdk/types"
	stakingtypes "github.com/cosmos/cosmos-sdk/x/staking/types"
)

// OracleC13 — dispute settlement pays out exactly what was paid in, once.
// Per-dispute shadow ledger driven by the delivered messages (who paid how much, in which round, from where),
// compared with the bank-module events of executions and claims.
type OracleC13 struct {
	counters
	t       *DisputeTracker
	paid    map[uint64]map[string]*big.Int // root dispute id -> payer -> total paid over all rounds
	escrow  map[uint64]*big.Int            // root id -> stake escrowed
	out     map[uint64]*big.Int            // root id -> everything paid out / burned so far
	potPaid map[uint64]*big.Int            // root id -> voter rewards claimed
	bad     map[uint64]bool                // root id -> ledger not reliable (several payments or executions in one block)
	probed  map[string]int                 // once-only probes already run per (root, address)
	fromStk map[uint64]int                 // root id -> number of payments made from stake
}

func NewOracleC13(t *DisputeTracker) *OracleC13 {
	return &OracleC13{counters: newCounters(), t: t, paid: map[uint64]map[string]*big.Int{}, escrow: map[uint64]*big.Int{}, out: map[uint64]*big.Int{}, potPaid: map[uint64]*big.Int{}, bad: map[uint64]bool{}, probed: map[string]int{}, fromStk: map[uint64]int{}}
}
func (o *OracleC13) ID() string { return "C13" }

func (o *OracleC13) v(h int64, site, class, f string, a ...any) *Violation {
	return &Violation{Property: "C13", Oracle: "settlement", Site: site, Class: class, Height: h, Msg: fmt.Sprintf(f, a...)}
}

func addTo(m map[uint64]*big.Int, k uint64, x *big.Int) {
	if m[k] == nil {
		m[k] = new(big.Int)
	}
	m[k].Add(m[k], x)
}

func (o *OracleC13) AfterBlock(c *Chain, b *BlockCtx) []*Violation {
	o.t.update(c, b)
	var out []*Violation
	v := c.ViewOf(b.Ref)
	disputeMod := modAddr("dispute")
	bonded, notBonded := modAddr(stakingtypes.BondedPoolName), modAddr(stakingtypes.NotBondedPoolName)
	evs := b.AllBankEvents()

	txIn := map[int]*big.Int{}  // coins entering the dispute account per tx
	txOut := map[int]*big.Int{} // coins leaving it (transfers + burns) per tx
	txOutTo := map[int]map[string]*big.Int{}
	beginOut := new(big.Int)
	beginBurn := new(big.Int)
	beginToBonded := new(big.Int)
	for _, ev := range evs {
		switch {
		case ev.Kind == "transfer" && ev.To == disputeMod && ev.TxIdx >= 0:
			if txIn[ev.TxIdx] == nil {
				txIn[ev.TxIdx] = new(big.Int)
			}
			txIn[ev.TxIdx].Add(txIn[ev.TxIdx], ev.Amount.BigInt())
		case ev.Kind == "transfer" && ev.From == disputeMod:
			if ev.TxIdx >= 0 {
				if txOut[ev.TxIdx] == nil {
					txOut[ev.TxIdx] = new(big.Int)
					txOutTo[ev.TxIdx] = map[string]*big.Int{}
				}
				txOut[ev.TxIdx].Add(txOut[ev.TxIdx], ev.Amount.BigInt())
				if txOutTo[ev.TxIdx][ev.To] == nil {
					txOutTo[ev.TxIdx][ev.To] = new(big.Int)
				}
				txOutTo[ev.TxIdx][ev.To].Add(txOutTo[ev.TxIdx][ev.To], ev.Amount.BigInt())
			} else {
				beginOut.Add(beginOut, ev.Amount.BigInt())
				if ev.To == bonded || ev.To == notBonded {
					beginToBonded.Add(beginToBonded, ev.Amount.BigInt())
				}
			}
		case ev.Kind == "burn" && ev.From == disputeMod:
			if ev.TxIdx >= 0 {
				// inside a transaction the dispute account only burns accumulated sub-unit dust: whole units out of one
				// counter that collects the remainders of ALL disputes. They belong to no single dispute's ledger.
				o.add("dust_units_burned", int(ev.Amount.Int64()))
			} else {
				beginOut.Add(beginOut, ev.Amount.BigInt())
				beginBurn.Add(beginBurn, ev.Amount.BigInt())
			}
		}
	}

	// ---- executions of this block (BeginBlock): exactly once, flows by result
	var execNow []DisputeInfo
	for _, id := range o.t.ids() {
		d := o.t.cur[id]
		if o.t.execAt[id] == b.H {
			execNow = append(execNow, d)
		}
		if p, ok := o.t.prev[id]; ok && p.V != nil && p.V.Executed && (d.V == nil || !d.V.Executed) {
			out = append(out, o.v(b.H, "execution", "executed-flag-reset", "dispute %d was executed and is now marked not executed", id))
		}
	}
	if len(execNow) == 0 && beginOut.Sign() > 0 {
		out = append(out, o.v(b.H, "execution", "outflow-without-execution", "block %d: %s left the dispute account in BeginBlock although no dispute was executed", b.H, beginOut))
	}
	if len(execNow) == 1 && !o.ledgerOK(o.t.rootOf[execNow[0].D.DisputeId]) {
		o.count("executions_with_incomplete_ledger(skipped)")
		o.bad[o.t.rootOf[execNow[0].D.DisputeId]] = true
	} else if len(execNow) == 1 {
		d := execNow[0]
		root := o.t.rootOf[d.D.DisputeId]
		o.count("executions_checked")
		burnAmt := d.D.BurnAmount.BigInt()
		half := new(big.Int).Div(burnAmt, big.NewInt(2))
		noVoters := d.D.VoterReward.IsZero() && burnAmt.Sign() > 0
		wantBurn := half
		if noVoters {
			wantBurn = burnAmt
		}
		if beginBurn.Cmp(wantBurn) != 0 && !(burnAmt.Bit(0) == 1 && new(big.Int).Sub(beginBurn, wantBurn).CmpAbs(big.NewInt(1)) <= 0) {
			out = append(out, o.v(b.H, "execution", "burn-amount", "dispute %d (%s): %s burned at execution, expected %s (half of the burn amount %s; all of it when nobody voted)", d.D.DisputeId, d.V.VoteResult, beginBurn, wantBurn, burnAmt))
		}
		stake := o.escrow[root]
		if stake == nil {
			stake = new(big.Int)
		}
		fees := new(big.Int)
		for _, x := range o.paid[root] {
			fees.Add(fees, x)
		}
		switch d.V.VoteResult {
		case disputetypes.VoteResult_SUPPORT, disputetypes.VoteResult_NO_QUORUM_MAJORITY_SUPPORT:
			if beginToBonded.Sign() != 0 {
				out = append(out, o.v(b.H, "execution", "support-returned-stake", "dispute %d ended in support of the disputer but %s went back to the staking pools at execution", d.D.DisputeId, beginToBonded))
			}
		case disputetypes.VoteResult_INVALID, disputetypes.VoteResult_NO_QUORUM_MAJORITY_INVALID:
			if new(big.Int).Sub(beginToBonded, stake).CmpAbs(big.NewInt(2)) > 0 {
				out = append(out, o.v(b.H, "execution", "invalid-stake-return", "dispute %d ended invalid: %s returned to the backers, %s had been escrowed", d.D.DisputeId, beginToBonded, stake))
			}
		case disputetypes.VoteResult_AGAINST, disputetypes.VoteResult_NO_QUORUM_MAJORITY_AGAINST:
			// backers get their stake plus fees minus the burn amount
			want := new(big.Int).Add(stake, new(big.Int).Sub(fees, burnAmt))
			if new(big.Int).Sub(beginToBonded, want).CmpAbs(big.NewInt(2)) > 0 {
				cls := "against-payout"
				if d.D.DisputeRound > 1 {
					cls += ":multi-round"
				}
				out = append(out, o.v(b.H, "execution", cls, "dispute %d ended against the disputer: %s went to the backers, expected escrowed stake %s + fees %s - burn amount %s = %s", d.D.DisputeId, beginToBonded, stake, fees, burnAmt, want))
			}
		}
		addTo(o.out, root, beginOut)
	} else if len(execNow) > 1 {
		o.count("blocks_with_several_executions(skipped)")
		for _, d := range execNow {
			o.bad[o.t.rootOf[d.D.DisputeId]] = true // attribution ambiguous: conservation for these is skipped below
		}
	}

	// ---- transactions
	for i, tr := range b.Txs {
		in := c.IntentOfTx(b, i)
		if in == nil || tr.Code != 0 {
			continue
		}
		for mi := range in.Msgs {
			m := &in.Msgs[mi]
			switch m.K {
			case "propose_dispute", "add_fee":
				// what entered the dispute account in this tx: fee (capped by the chain) and, at funding, the escrowed stake
				id := m.U
				if m.K == "propose_dispute" {
					s, ok := findAttr(&b.Txs[i], "new_dispute", "dispute_id")
					if !ok {
						s, ok = findAttr(&b.Txs[i], "added_dispute_round", "dispute_id")
					}
					if !ok {
						continue
					}
					fmt.Sscanf(s, "%d", &id)
				}
				d, ok := o.t.cur[id]
				if !ok {
					continue
				}
				root := o.t.rootOf[id]
				prevFee := new(big.Int)
				if p, ok := o.t.prev[id]; ok {
					prevFee = p.D.FeeTotal.BigInt()
				} else if d.D.DisputeRound > 1 && len(d.D.PrevDisputeIds) >= 2 {
					if pp, ok := o.t.prev[d.D.PrevDisputeIds[len(d.D.PrevDisputeIds)-2]]; ok {
						prevFee = pp.D.FeeTotal.BigInt()
					}
				}
				fee := new(big.Int).Sub(d.D.FeeTotal.BigInt(), prevFee)
				if len(in.Msgs) > 1 || o.countKind(c, b, "propose_dispute", "add_fee") > 1 {
					// several payments on one dispute in a block: the split between them is not observable at block granularity
					fee = nil
				}
				who := in.Actor
				if m.As != nil {
					who = *m.As
				}
				if fee != nil && fee.Sign() > 0 {
					if o.paid[root] == nil {
						o.paid[root] = map[string]*big.Int{}
					}
					k := string(c.Accounts.Addr(who))
					if o.paid[root][k] == nil {
						o.paid[root][k] = new(big.Int)
					}
					o.paid[root][k].Add(o.paid[root][k], fee)
					o.count("payments_recorded")
				} else if fee == nil {
					o.bad[root] = true // ledger for this dispute unreliable from here on
				}
				if o.t.fundedAt[id] == b.H && d.D.DisputeRound == 1 {
					if rec, err := b.Ref.App.ReporterKeeper.DisputedDelegationAmounts.Get(v.ctx, d.D.HashId); err == nil {
						o.escrow[root] = rec.Total.BigInt()
					}
				}
			case "withdraw_fee_refund":
				payer := c.Accounts.Addr(m.T)
				key := fmt.Sprintf("%d|%s", m.U, string(payer))
				o.count("refunds_checked")
				if o.refundedTwice(key) {
					out = append(out, o.v(b.H, "claims", "refund-twice", "payer %s withdrew the fee refund of dispute %d twice", payer, m.U))
				}
				o.t.refunded[key] = true
				d, ok := o.t.cur[m.U]
				if !ok {
					continue
				}
				root := o.t.rootOf[m.U]
				got := txOut[i]
				if got == nil {
					got = new(big.Int)
				}
				addTo(o.out, root, got)
				if d.D.DisputeStatus == disputetypes.Failed {
					o.count("refunds_of_failed_disputes")
					continue
				}
				if o.paid[root] == nil || d.V == nil || !o.ledgerOK(root) {
					continue
				}
				mine := o.paid[root][string(payer)]
				if mine == nil {
					continue
				}
				fees := new(big.Int)
				for _, x := range o.paid[root] {
					fees.Add(fees, x)
				}
				if fees.Sign() == 0 {
					continue
				}
				// pro rata over ALL the payer's payments: fee-minus-burn share (+ the escrowed stake share when the disputer won)
				feeMinusBurn := new(big.Int).Sub(fees, d.D.BurnAmount.BigInt())
				want := new(big.Int).Div(new(big.Int).Mul(mine, feeMinusBurn), fees)
				if d.V.VoteResult == disputetypes.VoteResult_SUPPORT || d.V.VoteResult == disputetypes.VoteResult_NO_QUORUM_MAJORITY_SUPPORT {
					st := o.escrow[root]
					if st != nil {
						want.Add(want, new(big.Int).Div(new(big.Int).Mul(mine, st), fees))
					}
				}
				// dust burned inside the tx belongs to the dispute account, not to the payer
				toPayer := new(big.Int)
				for to, x := range txOutTo[i] {
					if to != "" {
						toPayer.Add(toPayer, x)
					}
				}
				if new(big.Int).Sub(toPayer, want).CmpAbs(big.NewInt(3)) > 0 {
					cls := "refund-not-pro-rata"
					switch {
					case o.payments(c, root, payer) > 1:
						cls += ":payer-paid-more-than-once"
					case d.D.DisputeRound > 1:
						cls += ":multi-round"
					}
					out = append(out, o.v(b.H, "claims", cls, "payer %s paid %s of %s in fees for dispute %d (result %s); refund %s, pro-rata entitlement %s", payer, mine, fees, m.U, d.V.VoteResult, toPayer, want))
				}
			case "claim_reward":
				who := in.Actor
				if m.As != nil {
					who = *m.As
				}
				key := fmt.Sprintf("%d|%s", m.U, string(c.Accounts.Addr(who)))
				o.count("reward_claims_checked")
				if o.t.claimed[key] {
					out = append(out, o.v(b.H, "claims", "reward-twice", "voter %s claimed the reward of dispute %d twice", c.Accounts.Addr(who), m.U))
				}
				o.t.claimed[key] = true
				root := o.t.rootOf[m.U]
				got := txOut[i]
				if got == nil {
					got = new(big.Int)
				}
				addTo(o.out, root, got)
				addTo(o.potPaid, root, got)
				if d, ok := o.t.cur[m.U]; ok && o.potPaid[root].Cmp(d.D.VoterReward.BigInt()) > 0 {
					out = append(out, o.v(b.H, "claims", "voter-pot-overdrawn", "voters of dispute %d have claimed %s, the pot is %s", m.U, o.potPaid[root], d.D.VoterReward))
				}
			}
		}
	}

	// ---- the dust counter holds sub-unit remainders only (10^-6 of a unit each): whole units are burned as they form
	if dust, err := b.Ref.App.DisputeKeeper.Dust.Get(v.ctx); err == nil {
		o.count("dust_counter_checks")
		if dust.GTE(math.NewInt(1_000_000)) || dust.IsNegative() {
			out = append(out, o.v(b.H, "dust", "dust-counter-holds-whole-units", "the dust counter holds %s millionths of a unit after block %d: whole units must have been burned when they formed", dust, b.H))
		}
	}

	// ---- conservation: once everybody has claimed, in = out + dust
	for _, id := range o.t.ids() {
		d := o.t.cur[id]
		root := o.t.rootOf[id]
		if root != id && len(d.D.PrevDisputeIds) > 0 && d.D.PrevDisputeIds[len(d.D.PrevDisputeIds)-1] != id {
			continue
		}
		if d.V == nil || !d.V.Executed || o.paid[root] == nil || o.out[root] == nil || o.t.execAt[id] == 0 || !o.ledgerOK(root) {
			continue
		}
		if o.settledChecked(id) {
			continue
		}
		// all payer records gone and all voters claimed?
		left := false
		for _, p := range v.FeePayers() {
			if o.t.rootOf[p.ID] == root {
				left = true
			}
		}
		for _, vr := range v.Voters() {
			if o.t.rootOf[vr.ID] == root && !vr.Rec.RewardClaimed && d.D.VoterReward.IsPositive() {
				left = true
			}
		}
		if left {
			continue
		}
		in := new(big.Int)
		for _, x := range o.paid[root] {
			in.Add(in, x)
		}
		if st := o.escrow[root]; st != nil {
			in.Add(in, st)
		}
		residual := new(big.Int).Sub(in, o.out[root])
		o.count("fully_settled_disputes")
		o.t.refunded[fmt.Sprintf("settled|%d", id)] = true
		nClaims := int64(len(o.paid[root]) + 4)
		if residual.Sign() < 0 || residual.Cmp(big.NewInt(nClaims)) > 0 {
			cls := "residual-after-all-claims"
			if residual.Sign() < 0 {
				cls = "paid-out-more-than-paid-in"
			} else if pot := d.D.VoterReward.BigInt(); pot.Sign() > 0 && o.potPaid[root] != nil && new(big.Int).Sub(new(big.Int).Sub(pot, o.potPaid[root]), residual).CmpAbs(big.NewInt(nClaims)) <= 0 {
				cls += ":voter-pot-not-fully-claimable"
			} else if pot.Sign() > 0 && o.potPaid[root] == nil && new(big.Int).Sub(pot, residual).CmpAbs(big.NewInt(nClaims)) <= 0 {
				cls += ":voter-pot-not-fully-claimable"
			}
			if d.V.VoteResult == disputetypes.VoteResult_AGAINST || d.V.VoteResult == disputetypes.VoteResult_NO_QUORUM_MAJORITY_AGAINST {
				cls += ":against"
			}
			out = append(out, o.v(b.H, "conservation", cls, "dispute %d (%s, %d rounds): %s was paid in (fees + escrowed stake), %s paid out or burned; %s remains although every party has claimed", id, d.V.VoteResult, d.D.DisputeRound, in, o.out[root], residual))
		}
	}
	if len(out) == 0 {
		out = append(out, o.onceProbes(c, b, v)...)
	}
	return out
}

// onceProbes: on a cache context (nothing is written back) every party of an executed dispute claims
// again and again — under every round id of the dispute — and may be paid at most once.
func (o *OracleC13) onceProbes(c *Chain, b *BlockCtx, v *View) []*Violation {
	var out []*Violation
	app := b.Ref.App
	dms := disputekeeper.NewMsgServerImpl(app.DisputeKeeper)
	rounds := map[uint64][]uint64{} // root -> round ids
	executed := map[uint64]bool{}
	for _, id := range o.t.ids() {
		d := o.t.cur[id]
		root := o.t.rootOf[id]
		rounds[root] = append(rounds[root], id)
		if d.V != nil && d.V.Executed {
			executed[root] = true
		}
	}
	if len(executed) == 0 {
		return nil
	}
	voters := v.Voters()
	payers := v.FeePayers()
	for root := range executed {
		ids := append([]uint64(nil), rounds[root]...)
		sort.Slice(ids, func(i, j int) bool { return ids[i] < ids[j] })
		seen := map[string]bool{}
		for _, vr := range voters {
			if o.t.rootOf[vr.ID] != root || seen[string(vr.Voter)] {
				continue
			}
			seen[string(vr.Voter)] = true
			key := fmt.Sprintf("v|%d|%s", root, string(vr.Voter))
			if o.probed[key] >= 2 {
				continue
			}
			o.probed[key]++
			cctx, _ := v.ctx.CacheContext()
			paidTimes := 0
			total := new(big.Int)
			for rep := 0; rep < 2; rep++ {
				for _, id := range ids {
					before := app.BankKeeper.GetBalance(cctx, vr.Voter, Denom).Amount
					err := probeMsg(cctx, func(x sdk.Context) error {
						_, e := dms.ClaimReward(x, &disputetypes.MsgClaimReward{CallerAddress: vr.Voter.String(), DisputeId: id})
						return e
					})
					o.count("probe_claim_reward_calls")
					if err != nil {
						continue
					}
					got := app.BankKeeper.GetBalance(cctx, vr.Voter, Denom).Amount.Sub(before)
					if got.IsPositive() {
						paidTimes++
						total.Add(total, got.BigInt())
					}
				}
			}
			if paidTimes > 1 {
				out = append(out, o.v(b.H, "once-probe", "reward-claimable-more-than-once", "voter %s of dispute %d (rounds %v) can claim its voting reward %d times in a row (%s in total) on the state after block %d", vr.Voter, root, ids, paidTimes, total, b.H))
				return out
			}
		}
		seenP := map[string]bool{}
		for _, p := range payers {
			if o.t.rootOf[p.ID] != root || seenP[string(p.Payer)] {
				continue
			}
			seenP[string(p.Payer)] = true
			key := fmt.Sprintf("p|%d|%s", root, string(p.Payer))
			if o.probed[key] >= 2 {
				continue
			}
			o.probed[key]++
			cctx, _ := v.ctx.CacheContext()
			paidTimes := 0
			total := new(big.Int)
			for rep := 0; rep < 2; rep++ {
				for _, id := range ids {
					cv := &View{c: v.c, n: v.n, ctx: cctx}
					before := new(big.Int).Add(holdings(cv, p.Payer), cv.Balance(p.Payer).BigInt())
					err := probeMsg(cctx, func(x sdk.Context) error {
						_, e := dms.WithdrawFeeRefund(x, &disputetypes.MsgWithdrawFeeRefund{CallerAddress: p.Payer.String(), PayerAddress: p.Payer.String(), Id: id})
						return e
					})
					o.count("probe_fee_refund_calls")
					if err != nil {
						continue
					}
					got := new(big.Int).Sub(new(big.Int).Add(holdings(cv, p.Payer), cv.Balance(p.Payer).BigInt()), before)
					if got.Sign() > 0 {
						paidTimes++
						total.Add(total, got)
					}
				}
			}
			if paidTimes > 1 {
				out = append(out, o.v(b.H, "once-probe", "refund-claimable-more-than-once", "payer %s of dispute %d (rounds %v) can withdraw its fee refund %d times in a row (%s in total) on the state after block %d", p.Payer, root, ids, paidTimes, total, b.H))
				return out
			}
		}
	}
	// ---- per group: a voter's reward is pot/groups x (its recorded weight in the group) / (the group's counter total over
	// all rounds). If the recorded weights of a group add up to more than the counters, that group's claims exceed the
	// group's part of the pot.
	for _, root := range o.t.ids() {
		if !executed[root] || o.t.rootOf[root] != root {
			continue
		}
		key := fmt.Sprintf("grp|%d|%d", root, len(voters))
		if o.probed[key] >= 1 {
			continue
		}
		o.probed[key]++
		recRep, recTok := new(big.Int), new(big.Int)
		for _, vr := range voters {
			if o.t.rootOf[vr.ID] == root {
				recRep.Add(recRep, vr.Rec.ReporterPower.BigInt())
				recTok.Add(recTok, vr.Rec.TokenholderPower.BigInt())
			}
		}
		cntRep, cntTok := new(big.Int), new(big.Int)
		okCnt := true
		for _, id := range rounds[root] {
			cnt, err := app.DisputeKeeper.VoteCountsByGroup.Get(v.ctx, id)
			if err != nil {
				okCnt = false
				break
			}
			for _, x := range []uint64{cnt.Reporters.Support, cnt.Reporters.Against, cnt.Reporters.Invalid} {
				cntRep.Add(cntRep, new(big.Int).SetUint64(x))
			}
			for _, x := range []uint64{cnt.Tokenholders.Support, cnt.Tokenholders.Against, cnt.Tokenholders.Invalid} {
				cntTok.Add(cntTok, new(big.Int).SetUint64(x))
			}
		}
		if !okCnt {
			continue
		}
		o.count("group_pot_checks")
		if recRep.Cmp(cntRep) > 0 && cntRep.Sign() > 0 {
			out = append(out, o.v(b.H, "group-pot", "group-claims-exceed-group-pot:reporters", "dispute %d: the reporter-group weights recorded for the voters add up to %s, the group total the rewards are divided by is %s: the group's claims exceed its part of the pot", root, recRep, cntRep))
			return out
		}
		if recTok.Cmp(cntTok) > 0 && cntTok.Sign() > 0 {
			out = append(out, o.v(b.H, "group-pot", "group-claims-exceed-group-pot:tokenholders", "dispute %d: the token-holder weights recorded for the voters add up to %s, the group total the rewards are divided by is %s: the group's claims exceed its part of the pot", root, recTok, cntTok))
			return out
		}
	}
	// ---- the voters' pot: on one branch of the state every voter of an executed dispute claims; together with what was
	// claimed in real blocks the payouts never exceed the pot
	for _, root := range o.t.ids() {
		if !executed[root] || o.t.rootOf[root] != root {
			continue
		}
		ids := append([]uint64(nil), rounds[root]...)
		sort.Slice(ids, func(i, j int) bool { return ids[i] < ids[j] })
		last := ids[len(ids)-1]
		d, ok := o.t.cur[last]
		if !ok || d.V == nil || !d.V.Executed {
			continue
		}
		key := fmt.Sprintf("pot|%d|%d", root, len(voters))
		if o.probed[key] >= 1 {
			continue
		}
		o.probed[key]++
		shared, _ := v.ctx.CacheContext()
		paid := new(big.Int)
		if o.potPaid[root] != nil {
			paid.Set(o.potPaid[root])
		}
		seen := map[string]bool{}
		n := 0
		for _, vr := range voters {
			if o.t.rootOf[vr.ID] != root || seen[string(vr.Voter)] {
				continue
			}
			seen[string(vr.Voter)] = true
			before := app.BankKeeper.GetBalance(shared, vr.Voter, Denom).Amount
			err := probeMsg(shared, func(x sdk.Context) error {
				_, e := dms.ClaimReward(x, &disputetypes.MsgClaimReward{CallerAddress: vr.Voter.String(), DisputeId: last})
				return e
			})
			if err == nil {
				paid.Add(paid, app.BankKeeper.GetBalance(shared, vr.Voter, Denom).Amount.Sub(before).BigInt())
				n++
			}
		}
		o.count("probe_voter_pot_drains")
		if paid.Cmp(d.D.VoterReward.BigInt()) > 0 {
			out = append(out, o.v(b.H, "once-probe", "voter-pot-overdrawn", "dispute %d: when every voter claims (%d claims on the state after block %d, plus what was claimed before) the voters receive %s, the pot is %s", last, n, b.H, paid, d.D.VoterReward))
			return out
		}
	}
	// ---- entitlement, in sequence: on ONE branch of the state every payer record of an executed dispute that did not
	// end against the disputer is withdrawn, one payer after the other; each of them must succeed (a payer's claim
	// must not depend on who claimed before)
	key := fmt.Sprintf("seq|%d", len(payers))
	if o.probed[key] < 2 || o.countKind(c, b, "withdraw_fee_refund") > 0 {
		o.probed[key]++
		shared, _ := v.ctx.CacheContext()
		for _, p := range payers {
			d, ok := o.t.cur[p.ID]
			if !ok || d.V == nil || !d.V.Executed || d.D.DisputeStatus != disputetypes.Resolved {
				continue
			}
			switch d.V.VoteResult {
			case disputetypes.VoteResult_INVALID, disputetypes.VoteResult_NO_QUORUM_MAJORITY_INVALID, disputetypes.VoteResult_SUPPORT, disputetypes.VoteResult_NO_QUORUM_MAJORITY_SUPPORT:
			default:
				continue
			}
			err := probeMsg(shared, func(x sdk.Context) error {
				_, e := dms.WithdrawFeeRefund(x, &disputetypes.MsgWithdrawFeeRefund{CallerAddress: p.Payer.String(), PayerAddress: p.Payer.String(), Id: p.ID})
				return e
			})
			o.count("probe_fee_refund_entitlement")
			if p.Info.FromBond {
				o.count("probe_fee_refund_entitlement_paid_from_stake")
			}
			if err != nil {
				cls := "refund-unavailable"
				if d := c.Facts["dispute-escrow-short"]; d != "" && insufficient(err) {
					// the dispute escrow was left short earlier in this run by an open finding (more stake recorded, and
					// later returned, than was moved in): the refund failing for funds is its consequence
					cls += ":escrow-short:" + d
				} else if p.Info.FromBond {
					cls += ":paid-from-stake"
				}
				if d.D.DisputeRound > 1 {
					cls += ":multi-round"
				}
				out = append(out, o.v(b.H, "entitlement-probe", cls, "payer %s holds a payer record (%s, from stake: %v) of dispute %d (%s, executed, round %d) but WithdrawFeeRefund fails: %s", p.Payer, p.Info.Amount, p.Info.FromBond, p.ID, d.V.VoteResult, d.D.DisputeRound, truncate(err.Error(), 200)))
				return out
			}
		}
	}
	return out
}

func (o *OracleC13) settledChecked(id uint64) bool {
	return o.t.refunded[fmt.Sprintf("settled|%d", id)]
}

func (o *OracleC13) refundedTwice(key string) bool { return o.t.refunded[key] }

func (o *OracleC13) countKind(c *Chain, b *BlockCtx, kinds ...string) int {
	n := 0
	for i, tr := range b.Txs {
		in := c.IntentOfTx(b, i)
		if in == nil || tr.Code != 0 {
			continue
		}
		for _, m := range in.Msgs {
			for _, k := range kinds {
				if m.K == k {
					n++
				}
			}
		}
	}
	return n
}

// payments counts the successful fee payments of a payer on a dispute over the whole history.
func (o *OracleC13) payments(c *Chain, root uint64, payer []byte) int {
	n := 0
	for id, rec := range c.Accounts.Outcomes {
		if rec.Code != 0 {
			continue
		}
		in := c.Accounts.Intents[id]
		if in == nil || string(c.Accounts.Addr(in.Actor)) != string(payer) {
			continue
		}
		for _, m := range in.Msgs {
			if m.K == "add_fee" && o.t.rootOf[m.U] == root {
				n++
			}
			if m.K == "propose_dispute" {
				n++ // conservative: any proposal by the payer counts
			}
		}
	}
	return n
}

func (o *OracleC13) End(c *Chain) []*Violation { return nil }

// ledgerOK: the shadow ledger of a dispute is used only when it is complete — every payment was observed
// separately and its sum equals the fee total of the dispute's latest round.
func (o *OracleC13) ledgerOK(root uint64) bool {
	if o.bad[root] || o.paid[root] == nil {
		return false
	}
	var latest *DisputeInfo
	for _, id := range o.t.ids() {
		d := o.t.cur[id]
		if o.t.rootOf[id] == root && (latest == nil || d.D.DisputeId > latest.D.DisputeId) {
			dd := d
			latest = &dd
		}
	}
	if latest == nil {
		return false
	}
	sum := new(big.Int)
	for _, x := range o.paid[root] {
		sum.Add(sum, x)
	}
	return sum.Cmp(latest.D.FeeTotal.BigInt()) == 0
}
