package sim

import (
	"fmt"
	"math/big"
	"strings"

	disputekeeper "github.com/tellor-io/layer/x/dispute/keeper"
	disputetypes "github.com/tellor-io/layer/x/dispute/types"
	reporterkeeper "github.com/tellor-io/layer/x/reporter/keeper"
	reportertypes "github.com/tellor-io/layer/x/reporter/types"

	"cosmossdk.io/math"

	sdk "github.com/cosmos/cosmos-sdk/types"
)

// OracleC04 — escrow accounts always cover what the chain says it owes.
type OracleC04 struct {
	counters
	prevSlack *big.Rat
}

func NewOracleC04() *OracleC04 { return &OracleC04{counters: newCounters()} }

func (o *OracleC04) ID() string { return "C04" }

func (o *OracleC04) v(h int64, site, class, f string, a ...any) *Violation {
	return &Violation{Property: "C04", Oracle: "escrow", Site: site, Class: class, Height: h, Msg: fmt.Sprintf(f, a...)}
}

func decToRat(d math.LegacyDec) *big.Rat {
	return new(big.Rat).SetFrac(d.BigInt(), new(big.Int).Exp(big.NewInt(10), big.NewInt(18), nil))
}

func (o *OracleC04) AfterBlock(c *Chain, b *BlockCtx) []*Violation {
	var out []*Violation
	v := c.ViewOf(b.Ref)

	// oracle account == sum of unpaid tips on open queries
	sumTips := math.ZeroInt()
	for _, q := range v.Queries() {
		sumTips = sumTips.Add(q.Meta.Amount)
	}
	if bal := v.ModuleBalance("oracle"); !bal.Equal(sumTips) {
		out = append(out, o.v(b.H, "oracle-account", "oracle-balance-ne-open-tips", "oracle account holds %s but open queries carry %s of unpaid tips", bal, sumTips))
	}
	o.count("oracle_balance_checks")

	// tips escrow >= credits; credits added never exceed what was paid in
	credits := new(big.Rat)
	for _, d := range v.SelectorTips() {
		credits.Add(credits, decToRat(d))
	}
	esc := v.ModuleBalance(reportertypes.TipsEscrowPool)
	slack := new(big.Rat).Sub(new(big.Rat).SetInt(esc.BigInt()), credits)
	if o.prevSlack != nil && slack.Cmp(o.prevSlack) < 0 {
		diff := new(big.Rat).Sub(o.prevSlack, slack)
		// tolerance: 10^-18 per credit, at most a few hundred credits per block
		if diff.Cmp(big.NewRat(1, 1_000_000_000_000)) > 0 {
			out = append(out, o.v(b.H, "tips-escrow", "credits-exceed-paid-in:"+payoutDiagnosis(v, b.H), "in block %d the credits grew by %s more than the coins that entered the tips escrow (escrow %s, credits %s)", b.H, diff.FloatString(6), esc, credits.FloatString(6)))
		}
	} else if slack.Cmp(big.NewRat(-1, 1_000_000_000_000)) < 0 { // sub-unit rounding of 10^-18 per credit is within the statement's tolerance
		class := "escrow-short"
		if reporterWithCommissionAboveOne(v) {
			class += ":commission-rate-outside-0-1"
		}
		out = append(out, o.v(b.H, "tips-escrow", class, "tips escrow holds %s but selectors are credited %s", esc, credits.FloatString(6)))
	}
	o.prevSlack = slack
	o.count("escrow_checks")

	// bridge account holds nothing
	if bal := v.ModuleBalance("bridge"); !bal.IsZero() {
		out = append(out, o.v(b.H, "bridge-account", "bridge-balance-nonzero", "bridge account holds %s", bal))
	}

	// dispute account >= liabilities recorded by the ledger
	liab, detail := o.disputeLiabilities(v)
	if bal := v.ModuleBalance("dispute"); bal.BigInt().Cmp(liab) < 0 {
		class := "dispute-escrow-short"
		// diagnosis from inputs: a shortfall of at most one unit per stake origin that was unbonded for a fee or an
		// escrow is the share->token truncation of the staking module's Unbond
		short := new(big.Int).Sub(liab, bal.BigInt())
		if short.Cmp(big.NewInt(int64(o.originCount(v)))) <= 0 {
			class = "short-by-unbond-truncation-units"
		} else if sameReportDisputedAgain(v) {
			class = "dispute-escrow-short:report-already-slashed-by-earlier-dispute"
		} else if backerMovedStake(c, v) {
			class = "dispute-escrow-short:backer-moved-stake-since-report"
		}
		out = append(out, o.v(b.H, "dispute-account", class, "dispute account holds %s but owes at least %s (%s)", bal, liab, detail))
		diag := ""
		if i := strings.IndexByte(class, ':'); i > 0 {
			diag = class[i+1:]
		} else if class == "short-by-unbond-truncation-units" {
			diag = class
		}
		if diag != "" {
			if c.Facts == nil {
				c.Facts = map[string]string{}
			}
			c.Facts["dispute-escrow-short"] = diag // claims failing for funds later in this run are its consequences
		}
	}
	if liab.Sign() > 0 {
		o.count("dispute_liability_checks_nonzero")
	}

	// entitlement probes (side-effect free, on a cache context)
	if len(out) == 0 && (b.H%5 == 0 || len(b.Txs) > 1) {
		out = append(out, o.probes(c, b, v)...)
	}
	return out
}

// disputeLiabilities: escrowed stake of unsettled disputes + fees of unexecuted disputes +
// refunds the remaining payer records entitle to after execution.
func (o *OracleC04) disputeLiabilities(v *View) (*big.Int, string) {
	total := big.NewInt(0)
	var parts []string
	ds := v.Disputes()
	latest := map[string]DisputeInfo{}
	for _, d := range ds {
		k := string(d.D.HashId)
		if cur, ok := latest[k]; !ok || d.D.DisputeId > cur.D.DisputeId {
			latest[k] = d
		}
	}
	// escrowed stake
	_ = v.n.App.ReporterKeeper.DisputedDelegationAmounts.Walk(v.ctx, nil, func(k []byte, d reportertypes.DelegationsAmounts) (bool, error) {
		if li, ok := latest[string(k)]; ok && (li.V == nil || !li.V.Executed) {
			total.Add(total, d.Total.BigInt())
			parts = append(parts, "escrow:"+d.Total.String())
		}
		return false, nil
	})
	for _, d := range latest {
		if d.D.DisputeStatus == disputetypes.Failed {
			continue
		}
		if d.V == nil || !d.V.Executed {
			total.Add(total, d.D.FeeTotal.BigInt())
			parts = append(parts, fmt.Sprintf("fees#%d:%s", d.D.DisputeId, d.D.FeeTotal))
		}
	}
	return total, strings.Join(parts, " ")
}

func insufficient(err error) bool {
	return err != nil && (strings.Contains(err.Error(), "insufficient funds") || strings.Contains(err.Error(), "insufficient account funds"))
}

func (o *OracleC04) probes(c *Chain, b *BlockCtx, v *View) []*Violation {
	var out []*Violation
	app := b.Ref.App
	// a bonded validator to withdraw to
	var bonded string
	for _, val := range v.Validators() {
		if val.IsBonded() {
			bonded = val.OperatorAddress
			break
		}
	}
	if bonded != "" {
		ms := reporterkeeper.NewMsgServerImpl(app.ReporterKeeper)
		for k, d := range v.SelectorTips() {
			if d.LT(math.LegacyOneDec()) {
				continue
			}
			cctx, _ := v.ctx.CacheContext()
			_, err := ms.WithdrawTip(cctx, &reportertypes.MsgWithdrawTip{SelectorAddress: sdk.AccAddress([]byte(k)).String(), ValidatorAddress: bonded})
			o.count("probe_withdraw_tip")
			if insufficient(err) {
				class := "entitled-claim-fails-for-funds"
				if reporterWithCommissionAboveOne(v) {
					class += ":commission-rate-outside-0-1"
				}
				out = append(out, o.v(b.H, "probe-withdraw-tip", class, "selector %s is credited %s but WithdrawTip fails: %v", sdk.AccAddress([]byte(k)), d, err))
				break
			}
		}
	}
	if c.Facts["dispute-escrow-short"] != "" {
		// an open finding left the dispute escrow short earlier in this run: claims on it failing for funds are its
		// consequences and carry no further information
		o.count("dispute_probes_skipped_after_known_escrow_shortfall")
		return out
	}
	dms := disputekeeper.NewMsgServerImpl(app.DisputeKeeper)
	disp := map[uint64]DisputeInfo{}
	for _, d := range v.Disputes() {
		disp[d.D.DisputeId] = d
	}
	for _, p := range v.FeePayers() {
		d, ok := disp[p.ID]
		if !ok || !(d.D.DisputeStatus == disputetypes.Failed || (d.V != nil && d.V.Executed)) {
			continue
		}
		cctx, _ := v.ctx.CacheContext()
		_, err := dms.WithdrawFeeRefund(cctx, &disputetypes.MsgWithdrawFeeRefund{CallerAddress: p.Payer.String(), PayerAddress: p.Payer.String(), Id: p.ID})
		o.count("probe_withdraw_fee_refund")
		if insufficient(err) {
			out = append(out, o.v(b.H, "probe-fee-refund", "entitled-claim-fails-for-funds", "payer %s of dispute %d (paid %s) cannot withdraw its refund: %v", p.Payer, p.ID, p.Info.Amount, err))
			break
		}
	}
	for _, vr := range v.Voters() {
		d, ok := disp[vr.ID]
		if !ok || d.V == nil || !d.V.Executed || vr.Rec.RewardClaimed {
			continue
		}
		cctx, _ := v.ctx.CacheContext()
		_, err := dms.ClaimReward(cctx, &disputetypes.MsgClaimReward{CallerAddress: vr.Voter.String(), DisputeId: vr.ID})
		o.count("probe_claim_reward")
		if insufficient(err) {
			out = append(out, o.v(b.H, "probe-claim-reward", "entitled-claim-fails-for-funds", "voter %s of dispute %d cannot claim its reward: %v", vr.Voter, vr.ID, err))
			break
		}
	}
	if len(out) > 0 {
		return out
	}
	// ---- everybody claims everything, one after the other and twice, on ONE shared branch of the state: whatever
	// order and repetition the chain accepts, no claim the ledger still lists may run into an empty account
	shared, _ := v.ctx.CacheContext()
	fails := func(site, f string, a ...any) {
		class := "entitled-claim-fails-for-funds"
		if reporterWithCommissionAboveOne(v) {
			class += ":commission-rate-outside-0-1"
		}
		out = append(out, o.v(b.H, site, class, f, a...))
	}
	potPaid := map[uint64]*big.Int{}
	for rep := 0; rep < 3 && len(out) == 0; rep++ {
		for _, p := range v.FeePayers() {
			d, ok := disp[p.ID]
			if !ok || !(d.D.DisputeStatus == disputetypes.Failed || (d.V != nil && d.V.Executed)) {
				continue
			}
			err := probeMsg(shared, func(x sdk.Context) error {
				_, e := dms.WithdrawFeeRefund(x, &disputetypes.MsgWithdrawFeeRefund{CallerAddress: p.Payer.String(), PayerAddress: p.Payer.String(), Id: p.ID})
				return e
			})
			o.count("drain_probe_calls")
			if insufficient(err) {
				fails("drain-probe-fee-refund", "when all parties claim in turn, payer %s of dispute %d (paid %s) cannot withdraw its refund: %v", p.Payer, p.ID, p.Info.Amount, err)
				break
			}
		}
		for _, vr := range v.Voters() {
			if len(out) > 0 {
				break
			}
			for _, d := range v.Disputes() {
				if d.V == nil || !d.V.Executed {
					continue
				}
				in := d.D.DisputeId == vr.ID
				for _, pid := range d.D.PrevDisputeIds {
					if pid == vr.ID {
						in = true
					}
				}
				if !in {
					continue
				}
				before := app.BankKeeper.GetBalance(shared, vr.Voter, Denom).Amount
				err := probeMsg(shared, func(x sdk.Context) error {
					_, e := dms.ClaimReward(x, &disputetypes.MsgClaimReward{CallerAddress: vr.Voter.String(), DisputeId: d.D.DisputeId})
					return e
				})
				o.count("drain_probe_calls")
				if err == nil {
					if potPaid[d.D.DisputeId] == nil {
						potPaid[d.D.DisputeId] = new(big.Int)
					}
					potPaid[d.D.DisputeId].Add(potPaid[d.D.DisputeId], app.BankKeeper.GetBalance(shared, vr.Voter, Denom).Amount.Sub(before).BigInt())
					if potPaid[d.D.DisputeId].Cmp(d.D.VoterReward.BigInt()) > 0 {
						out = append(out, o.v(b.H, "drain-probe-claim-reward", "credits-exceed-voter-pot", "when all parties claim in turn (each claim tried three times), voters of dispute %d are paid %s out of a pot of %s", d.D.DisputeId, potPaid[d.D.DisputeId], d.D.VoterReward))
						break
					}
				}
				if insufficient(err) {
					fails("drain-probe-claim-reward", "when all parties claim in turn, voter %s cannot claim its reward of dispute %d: %v", vr.Voter, d.D.DisputeId, err)
					break
				}
			}
		}
	}
	if len(out) == 0 {
		// what is left after every accepted claim must still cover what the ledger still owes
		sv := &View{c: v.c, n: v.n, ctx: shared}
		liab, detail := o.disputeLiabilities(sv)
		bal := sv.ModuleBalance("dispute").BigInt()
		o.count("drain_probe_coverage_checks")
		if bal.Cmp(liab) < 0 {
			// the same input-level diagnoses as for the direct coverage check (the open findings show here too: leftovers
			// of other disputes' roundings can hide a truncation shortfall until everything has been claimed)
			site, class := "drain-probe-coverage", "dispute-escrow-short-after-claims"
			short := new(big.Int).Sub(liab, bal)
			if short.Cmp(big.NewInt(int64(o.originCount(sv)))) <= 0 || short.Cmp(big.NewInt(int64(o.originCount(v)))) <= 0 {
				site, class = "dispute-account", "short-by-unbond-truncation-units"
			} else if sameReportDisputedAgain(v) {
				site, class = "dispute-account", "dispute-escrow-short:report-already-slashed-by-earlier-dispute"
			} else if backerMovedStake(c, v) {
				site, class = "dispute-account", "dispute-escrow-short:backer-moved-stake-since-report"
			}
			if site == "dispute-account" {
				if c.Facts == nil {
					c.Facts = map[string]string{}
				}
				d := class
				if i := strings.IndexByte(class, ':'); i > 0 {
					d = class[i+1:]
				}
				c.Facts["dispute-escrow-short"] = d
			}
			out = append(out, o.v(b.H, site, class, "after every party claimed everything the chain lets it claim (each claim tried three times), the dispute account holds %s but still owes at least %s (%s)", bal, liab, detail))
		}
	}
	return out
}

func (o *OracleC04) End(c *Chain) []*Violation { return nil }

// payoutDiagnosis classifies, from inputs only (the reporters paid in this block, their accepted commission
// rate and the stake snapshot of their report), why credits could exceed the reward.
func payoutDiagnosis(v *View, h int64) string {
	class := "unclassified"
	for _, a := range v.Aggregates() {
		if a.Agg.Height != uint64(h) {
			continue
		}
		for _, r := range a.Agg.Reporters {
			addr, err := sdk.AccAddressFromBech32(r.Reporter)
			if err != nil {
				continue
			}
			rec, err := v.n.App.ReporterKeeper.Reporters.Get(v.ctx, addr)
			if err != nil {
				continue
			}
			if rec.CommissionRate.GT(math.LegacyOneDec()) || rec.CommissionRate.IsNegative() {
				return "commission-rate-outside-0-1"
			}
			if rec.CommissionRate.IsPositive() {
				snap, err := v.n.App.ReporterKeeper.Report.Get(v.ctx, collJoinReport(a.QueryID, addr, r.BlockNumber))
				if err == nil {
					own := 0
					for _, t := range snap.TokenOrigins {
						if string(t.DelegatorAddress) == string(addr) {
							own++
						}
					}
					if own >= 2 {
						class = "commission-once-per-own-validator"
					}
				}
			}
		}
	}
	return class
}

func (o *OracleC04) originCount(v *View) int {
	n := 0
	_ = v.n.App.ReporterKeeper.DisputedDelegationAmounts.Walk(v.ctx, nil, func(k []byte, d reportertypes.DelegationsAmounts) (bool, error) {
		n += len(d.TokenOrigins)
		return false, nil
	})
	_ = v.n.App.ReporterKeeper.FeePaidFromStake.Walk(v.ctx, nil, func(k []byte, d reportertypes.DelegationsAmounts) (bool, error) {
		n += len(d.TokenOrigins)
		return false, nil
	})
	return n
}

// reporterWithCommissionAboveOne: input-level diagnosis — a reporter was created with an accepted commission
// rate above 1 (the handler accepts up to 100, the payout multiplies by the rate).
func reporterWithCommissionAboveOne(v *View) bool {
	for _, r := range v.Reporters() {
		if r.Rec.CommissionRate.GT(math.LegacyOneDec()) || r.Rec.CommissionRate.IsNegative() {
			return true
		}
	}
	return false
}
