package sim

import (
	"fmt"
	"math/big"
	"sort"
	"strings"

	oracletypes "github.com/tellor-io/layer/x/oracle/types"
)

// OracleC06 — the aggregate is the true weighted median / weighted mode of the round's reports.
// Checked in situ on every aggregate any run creates. It also hosts the C01 pure-function probe
// (repeated calls on identical input must agree) and the order-independence probe (permuted input).
type OracleC06 struct {
	counters
	seen map[string]bool
}

func NewOracleC06() *OracleC06 { return &OracleC06{counters: newCounters(), seen: map[string]bool{}} }

func (o *OracleC06) ID() string { return "C06" }

func numVal(s string) (*big.Int, bool) {
	if len(s) >= 2 && s[0] == '0' && (s[1] == 'x' || s[1] == 'X') {
		s = s[2:]
	}
	return new(big.Int).SetString(s, 16)
}

func (o *OracleC06) AfterBlock(c *Chain, b *BlockCtx) []*Violation {
	var out []*Violation
	v := c.ViewOf(b.Ref)
	var reports []ReportInfo
	loaded := false
	for _, a := range v.Aggregates() {
		if a.Agg.Height != uint64(b.H) || len(a.Agg.Reporters) == 0 {
			continue // withdrawal aggregates carry no reports
		}
		if !loaded {
			reports = v.Reports()
			loaded = true
		}
		var round []oracletypes.MicroReport
		for _, r := range reports {
			if r.MetaID == a.Agg.MetaId && eqBytes(r.QueryID, a.QueryID) {
				round = append(round, r.Rep)
			}
		}
		if len(round) == 0 {
			out = append(out, &Violation{Property: "C06", Oracle: "definition", Site: "aggregate", Class: "aggregate-without-reports", Height: b.H,
				Msg: fmt.Sprintf("aggregate of query %x (meta %d) exists but the round has no stored reports", a.QueryID[:4], a.Agg.MetaId)})
			continue
		}
		out = append(out, o.checkOne(c, b, a, round)...)
	}
	return out
}

func (o *OracleC06) checkOne(c *Chain, b *BlockCtx, a AggInfo, round []oracletypes.MicroReport) []*Violation {
	var out []*Violation
	bad := func(class, f string, args ...any) {
		out = append(out, &Violation{Property: "C06", Oracle: "definition", Site: "aggregate", Class: class, Height: b.H,
			Msg: fmt.Sprintf("query %x meta %d (%d reports, method %s): ", a.QueryID[:4], a.Agg.MetaId, len(round), round[0].AggregateMethod) + fmt.Sprintf(f, args...)})
	}
	total := new(big.Int)
	for _, r := range round {
		total.Add(total, new(big.Int).SetUint64(r.Power))
	}
	chosen := a.Agg.AggregateValue
	method := "mode"
	if round[0].AggregateMethod == "weighted-median" {
		method = "median"
	}
	o.count("aggregates_checked_" + method)
	if len(round) > 1 {
		o.count("aggregates_with_several_reports")
	}
	// chosen is a reported value
	isReported := false
	for _, r := range round {
		if r.Value == chosen {
			isReported = true
		}
	}
	if !isReported {
		bad("value-not-reported", "aggregate value %s was reported by nobody", truncate(chosen, 20))
		return out
	}
	if method == "median" {
		cv, ok := numVal(chosen)
		if !ok {
			bad("unparsable", "chosen value does not parse")
			return out
		}
		less, leq := new(big.Int), new(big.Int)
		for _, r := range round {
			rv, ok := numVal(r.Value)
			if !ok {
				continue
			}
			p := new(big.Int).SetUint64(r.Power)
			if rv.Cmp(cv) < 0 {
				less.Add(less, p)
			}
			if rv.Cmp(cv) <= 0 {
				leq.Add(leq, p)
			}
		}
		// power(strictly smaller) <= total/2  and  power(<= chosen) >= total/2   (compare doubled to stay integral)
		if new(big.Int).Lsh(less, 1).Cmp(total) > 0 || new(big.Int).Lsh(leq, 1).Cmp(total) < 0 {
			bad("not-a-weighted-median", "chosen %s: power of smaller values %s, of values up to it %s, total %s", cv, less, leq, total)
		}
		if leq.Cmp(total) != 0 && new(big.Int).Lsh(leq, 1).Cmp(total) == 0 {
			o.count("exact_half_boundary_hits")
		}
	} else {
		w := map[string]*big.Int{}
		for _, r := range round {
			if w[r.Value] == nil {
				w[r.Value] = new(big.Int)
			}
			w[r.Value].Add(w[r.Value], new(big.Int).SetUint64(r.Power))
		}
		ties := 0
		for val, p := range w {
			if p.Cmp(w[chosen]) > 0 {
				bad("not-a-weighted-mode", "chosen value has power %s but value %s has %s", w[chosen], truncate(val, 16), p)
				break
			}
			if val != chosen && p.Cmp(w[chosen]) == 0 {
				ties++
			}
		}
		if ties > 0 {
			o.count("mode_equal_weight_ties")
		}
		// reach probe: would the weighted median of the same reports be another value? (then a mix-up of the two
		// methods is visible on this round)
		if med, ok := refMedian(round); ok && med != chosen && w[med] != nil && w[med].Cmp(w[chosen]) < 0 {
			o.count("probe_mode_rounds_whose_median_differs")
			for _, a2 := range c.ViewOf(b.Ref).Aggregates() {
				if a2.Agg.Height == uint64(b.H) && len(a2.Agg.Reporters) > 0 && !eqBytes(a2.QueryID, a.QueryID) {
					o.count("probe_…of_which_another_round_closed_in_the_same_block")
					break
				}
			}
		}
	}
	if a.Agg.ReporterPower != total.Uint64() || !total.IsUint64() {
		bad("power-sum", "aggregate records total power %d, reports sum to %s", a.Agg.ReporterPower, total)
	}
	// every report listed exactly once
	want := map[string]int{}
	for _, r := range round {
		want[fmt.Sprintf("%s/%d/%d", r.Reporter, r.Power, r.BlockNumber)]++
	}
	for _, ar := range a.Agg.Reporters {
		want[fmt.Sprintf("%s/%d/%d", ar.Reporter, ar.Power, ar.BlockNumber)]--
	}
	for k, n := range want {
		if n != 0 {
			bad("reporters-list", "reporter list differs from the round's reports at %s (%+d)", k, n)
			break
		}
	}
	// the named reporter reported the chosen value
	named := false
	for _, r := range round {
		if r.Reporter == a.Agg.AggregateReporter && r.Value == chosen {
			named = true
		}
	}
	if !named {
		bad("aggregate-reporter", "named reporter %s did not report the chosen value", a.Agg.AggregateReporter)
	}
	if int(a.Agg.AggregateReportIndex) >= len(a.Agg.Reporters) {
		bad("report-index", "report index %d out of range", a.Agg.AggregateReportIndex)
	} else {
		ir := a.Agg.Reporters[a.Agg.AggregateReportIndex].Reporter
		ok := false
		for _, r := range round {
			if r.Reporter == ir && r.Value == chosen {
				ok = true
			}
		}
		if !ok {
			bad("report-index", "report index %d points at %s who did not report the chosen value", a.Agg.AggregateReportIndex, ir)
		}
	}

	// ---- probes on the real aggregation functions with this round's real input
	if len(round) >= 2 {
		out = append(out, o.functionProbes(c, b, a, round, method)...)
	}
	if len(o.samples) < 3 && len(round) >= 2 {
		var parts []string
		for _, r := range round {
			parts = append(parts, fmt.Sprintf("%s:%d", truncate(strings.TrimLeft(r.Value, "0"), 10), r.Power))
		}
		sort.Strings(parts)
		o.sample(fmt.Sprintf("h=%d %s reports=[%s] chosen=%s", b.H, method, strings.Join(parts, " "), truncate(strings.TrimLeft(chosen, "0"), 10)))
	}
	return out
}

func (o *OracleC06) functionProbes(c *Chain, b *BlockCtx, a AggInfo, round []oracletypes.MicroReport, method string) []*Violation {
	var out []*Violation
	k := b.Ref.App.OracleKeeper
	ctx, _ := c.Ctx(b.Ref).CacheContext()
	call := func(in []oracletypes.MicroReport) (*oracletypes.Aggregate, error) {
		cp := append([]oracletypes.MicroReport(nil), in...)
		if method == "median" {
			return k.WeightedMedian(ctx, cp, a.Agg.MetaId)
		}
		return k.WeightedMode(ctx, cp, a.Agg.MetaId)
	}
	first, err := call(round)
	if err != nil {
		return nil
	}
	// WeightedMode loops once per unit of reporting power: the number of repetitions is scaled down (deterministically,
	// by the round's total power) so that the probe's cost stays bounded when a reporter carries millions of units
	repeats := 96
	if method == "mode" {
		var tot uint64
		for _, r := range round {
			tot += r.Power
		}
		if tot > 0 && 20_000_000/tot < uint64(repeats) {
			repeats = int(20_000_000 / tot)
			if repeats < 2 {
				repeats = 2
			}
			o.count("repeat_probe_scaled_down_for_large_power")
		}
	}
	// C01 (d): repeated calls on identical input agree (map-iteration order is re-drawn on every call)
	for i := 0; i < repeats; i++ {
		r, err := call(round)
		if err != nil {
			break
		}
		o.count("repeat_calls")
		if r.AggregateValue != first.AggregateValue || r.AggregateReporter != first.AggregateReporter {
			out = append(out, &Violation{Property: "C01", Oracle: "pure-function-probe", Site: "aggregation-" + method, Class: "result-depends-on-map-order", Height: b.H,
				Msg: fmt.Sprintf("query %x: the same %d reports aggregate to %s (reporter %s) on one call and to %s (reporter %s) on another", a.QueryID[:4], len(round),
					truncate(first.AggregateValue, 24), first.AggregateReporter, truncate(r.AggregateValue, 24), r.AggregateReporter)})
			break
		}
	}
	// C06 last clause: the value does not depend on arrival order (deterministic permutations: reverse, rotations)
	perms := [][]oracletypes.MicroReport{}
	rev := append([]oracletypes.MicroReport(nil), round...)
	for i, j := 0, len(rev)-1; i < j; i, j = i+1, j-1 {
		rev[i], rev[j] = rev[j], rev[i]
	}
	perms = append(perms, rev)
	for s := 1; s < len(round) && s <= 4; s++ {
		rot := append(append([]oracletypes.MicroReport(nil), round[s:]...), round[:s]...)
		perms = append(perms, rot)
	}
	for _, p := range perms {
		r, err := call(p)
		if err != nil {
			break
		}
		o.count("permuted_calls")
		same := r.AggregateValue == first.AggregateValue
		if !same && method == "median" {
			// two reporters can spell the same number differently (0x prefix, letter case): which spelling is stored
			// follows the arrival order of equal values, the value does not
			if x, ok1 := numVal(r.AggregateValue); ok1 {
				if y, ok2 := numVal(first.AggregateValue); ok2 && x.Cmp(y) == 0 {
					same = true
					o.count("permutation_changed_only_the_spelling_of_the_value")
				}
			}
		}
		if !same {
			// with an equal-weight tie the statement leaves the winner open only if it is fixed (C01); a change under
			// permutation means it depends on arrival order
			out = append(out, &Violation{Property: "C06", Oracle: "order-independence", Site: "aggregation-" + method, Class: "value-depends-on-arrival-order", Height: b.H,
				Msg: fmt.Sprintf("query %x: permuting the %d reports changes the aggregate from %s to %s", a.QueryID[:4], len(round), truncate(first.AggregateValue, 24), truncate(r.AggregateValue, 24))})
			break
		}
	}
	return out
}

func (o *OracleC06) End(c *Chain) []*Violation { return nil }

// refMedian: the smallest reported value whose cumulative power (values in ascending numeric order) reaches half of
// the total — a reference weighted median used only by a reach probe.
func refMedian(round []oracletypes.MicroReport) (string, bool) {
	type vp struct {
		v *big.Int
		s string
		p *big.Int
	}
	var xs []vp
	total := new(big.Int)
	for _, r := range round {
		n, ok := numVal(r.Value)
		if !ok {
			return "", false
		}
		p := new(big.Int).SetUint64(r.Power)
		xs = append(xs, vp{n, r.Value, p})
		total.Add(total, p)
	}
	sort.SliceStable(xs, func(i, j int) bool { return xs[i].v.Cmp(xs[j].v) < 0 })
	cum := new(big.Int)
	for _, x := range xs {
		cum.Add(cum, x.p)
		if new(big.Int).Lsh(cum, 1).Cmp(total) >= 0 {
			return x.s, true
		}
	}
	return "", false
}
