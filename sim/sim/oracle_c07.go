package sim

import (
	"fmt"
	"math/big"

	oracletypes "github.com/tellor-io/layer/x/oracle/types"
)

// OracleC07 — reports enter only an open round; each round aggregates exactly once.
// A small state machine over (query, round) driven by the delivered messages and block heights,
// compared after every block with the Query / Reports / Aggregates / CyclelistSequencer collections.
type OracleC07 struct {
	counters
	prevQ      map[string]oracletypes.QueryMeta // key qid|id
	prevJailed map[string]bool
	prevCycle  [][]byte
	prevSeq    uint64
	have       bool
	aggregated map[string]int64 // qid|metaId -> height
	prevMin    *big.Int
	prevStake  map[string]*stakeSnap // reporter -> bonded stake terms at the end of the previous block
	prevValJ   map[string]bool       // validator -> jailed at the end of the previous block
}

func NewOracleC07() *OracleC07 {
	return &OracleC07{counters: newCounters(), prevQ: map[string]oracletypes.QueryMeta{}, prevJailed: map[string]bool{}, aggregated: map[string]int64{}}
}

func (o *OracleC07) ID() string { return "C07" }

func (o *OracleC07) v(h int64, oracle, site, class, f string, a ...any) *Violation {
	return &Violation{Property: "C07", Oracle: oracle, Site: site, Class: class, Height: h, Msg: fmt.Sprintf(f, a...)}
}

func roundKey(qid []byte, id uint64) string { return fmt.Sprintf("%x|%d", qid, id) }

// bridgeKind: 1 deposit, 2 withdrawal, 0 other (decoded with the independent ABI reader)
func bridgeKind(qd []byte) int {
	r := abiReader{qd}
	typ, err := r.bytesAt(0)
	if err != nil || string(typ) != "TRBBridge" {
		return 0
	}
	args, err := r.bytesAt(32)
	if err != nil {
		return 0
	}
	ar := abiReader{args}
	w, err := ar.uintAt(0)
	if err != nil {
		return 0
	}
	if w.Sign() != 0 {
		return 1
	}
	return 2
}

func (o *OracleC07) AfterBlock(c *Chain, b *BlockCtx) []*Violation {
	var out []*Violation
	v := c.ViewOf(b.Ref)
	h := uint64(b.H)
	curQ := map[string]oracletypes.QueryMeta{}
	curByQid := map[string][]oracletypes.QueryMeta{}
	for _, q := range v.Queries() {
		curQ[roundKey(q.QueryID, q.Meta.Id)] = q.Meta
		curByQid[string(q.QueryID)] = append(curByQid[string(q.QueryID)], q.Meta)
	}
	curJailed := map[string]bool{}
	for _, r := range v.Reporters() {
		curJailed[string(r.Addr)] = r.Rec.Jailed
	}
	cycle := v.Cyclelist()
	seq := v.CycleSeq()
	params, _ := b.Ref.App.OracleKeeper.Params.Get(v.ctx)
	defer func() {
		o.prevQ, o.prevJailed, o.prevCycle, o.prevSeq, o.have = curQ, curJailed, cycle, seq, true
	}()
	if !o.have {
		return nil
	}
	prevByQid := map[string][]oracletypes.QueryMeta{}
	for _, m := range o.prevQ {
		qid := string(QueryID(m.QueryData))
		prevByQid[qid] = append(prevByQid[qid], m)
	}

	// ---- A. every accepted report met the admission conditions
	tippedBefore := map[string]int{} // qid -> first tx index of a successful tip in this block
	unjailedBefore := map[string]int{}
	reportedThisBlock := map[string]bool{} // qid
	for i, tr := range b.Txs {
		in := c.IntentOfTx(b, i)
		if in == nil || tr.Code != 0 {
			continue
		}
		signer := c.Accounts.Addr(in.Actor)
		for mi := range in.Msgs {
			m := &in.Msgs[mi]
			switch m.K {
			case "tip":
				qid := string(QueryID(QueryDataOf(m.Q)))
				if _, ok := tippedBefore[qid]; !ok {
					tippedBefore[qid] = i
				}
			case "unjail_reporter":
				if _, ok := unjailedBefore[string(signer)]; !ok {
					unjailedBefore[string(signer)] = i
				}
			case "submit_value":
				qd := QueryDataOf(m.Q)
				qid := string(QueryID(qd))
				reportedThisBlock[qid] = true
				o.count("accepted_reports_checked")
				kind := bridgeKind(qd)
				if kind == 2 {
					out = append(out, o.v(b.H, "admission", "MsgSubmitValue", "withdrawal-query-reported", "tx %d: a report for a bridge-withdrawal query was accepted", i))
					continue
				}
				if o.prevJailed[string(signer)] {
					if ti, ok := unjailedBefore[string(signer)]; !ok || ti > i {
						out = append(out, o.v(b.H, "admission", "MsgSubmitValue", "jailed-reporter-accepted", "tx %d: reporter %s was jailed and not released, yet its report was accepted", i, signer))
					}
				}
				if kind == 1 {
					o.count("deposit_reports")
					continue
				}
				open := false
				atExpiry := false
				for _, pm := range prevByQid[qid] {
					if pm.Expiration >= h && (pm.Amount.IsPositive() || pm.CycleList) {
						open = true
						if pm.Expiration == h {
							atExpiry = true
						}
					}
				}
				if ti, ok := tippedBefore[qid]; ok && ti <= i {
					open = true
				}
				if atExpiry {
					o.count("reports_at_expiry_height")
				}
				if !open {
					out = append(out, o.v(b.H, "admission", "MsgSubmitValue", "report-accepted-without-open-round", "tx %d: report by %s accepted for query %x although no tipped / cycle-list round with an open window existed (height %d)", i, signer, []byte(qid)[:4], h))
				}
			}
		}
	}
	// minimum stake of the reports stored in this block
	// the minimum in force may have been changed by governance in this very block: accept the smaller one
	minStake := params.MinStakeAmount.BigInt()
	if o.prevMin != nil && o.prevMin.Cmp(minStake) < 0 {
		minStake = o.prevMin
	}
	defer func() { o.prevMin = params.MinStakeAmount.BigInt() }()
	minPower := new(big.Int).Div(minStake, big.NewInt(1_000_000))
	for _, r := range v.Reports() {
		if r.Rep.BlockNumber == h && new(big.Int).SetUint64(r.Rep.Power).Cmp(minPower) < 0 {
			out = append(out, o.v(b.H, "admission", "MsgSubmitValue", "below-minimum-stake", "report by %s stored with power %d, minimum stake %s", r.Reporter, r.Rep.Power, params.MinStakeAmount))
		}
	}
	// the same condition against the staking module's own state (not the power the report carries): what the
	// reporter's selectors had with bonded validators at the end of the previous block, for reports that are not
	// preceded in their block by anything that moves stake
	curStake, _ := bondedStakeSnapshot(v)
	curValJ := map[string]bool{}
	stakeMoved := false
	for _, val := range v.Validators() {
		curValJ[val.OperatorAddress] = val.Jailed
		if val.Jailed && o.prevValJ != nil && !o.prevValJ[val.OperatorAddress] {
			stakeMoved = true // jailed in this block: power index and bonded status disagree until EndBlock (grey)
		}
	}
	for _, e := range b.Res.Events {
		if e.Type == "dispute_executed" {
			stakeMoved = true
		}
	}
	prevStake := o.prevStake
	defer func() { o.prevStake, o.prevValJ = curStake, curValJ }()
	if prevStake != nil && !stakeMoved {
		firstStake := len(b.Txs) * 100
		for i, tr := range b.Txs {
			in := c.IntentOfTx(b, i)
			if in == nil || tr.Code != 0 {
				continue
			}
			for mi, m := range in.Msgs {
				if stakeKinds[m.K] && i*100+mi < firstStake {
					firstStake = i*100 + mi
				}
			}
		}
		for i, tr := range b.Txs {
			in := c.IntentOfTx(b, i)
			if in == nil || tr.Code != 0 {
				continue
			}
			signer := c.Accounts.Addr(in.Actor)
			for mi := range in.Msgs {
				if in.Msgs[mi].K != "submit_value" || i*100+mi > firstStake {
					continue
				}
				snap := prevStake[string(signer)]
				total := new(big.Int)
				n := 0
				if snap != nil {
					for _, t := range snap.terms {
						total.Add(total, t.Tokens) // locked selectors included: the most the reporter could be credited with
						n++
					}
				}
				o.count("accepted_reports_checked_against_staking_state")
				if new(big.Int).Add(total, big.NewInt(int64(n))).Cmp(minStake) < 0 {
					out = append(out, o.v(b.H, "admission", "MsgSubmitValue", "below-minimum-stake:by-staking-state", "tx %d: report by %s accepted although its selectors had only %s loya with bonded validators at the end of the previous block (minimum stake %s)", i, signer, total, minStake))
				}
			}
		}
	}

	// ---- B. aggregation: exactly once, in the block where the window closes, and the round disappears
	aggAt := map[string]AggInfo{}
	for _, a := range v.Aggregates() {
		if a.Agg.Height != h || len(a.Agg.Reporters) == 0 {
			continue
		}
		k := roundKey(a.QueryID, a.Agg.MetaId)
		if prevH, dup := o.aggregated[k]; dup {
			out = append(out, o.v(b.H, "aggregation", "SetAggregatedReport", "round-aggregated-twice", "round %s aggregated at height %d and again at %d", truncate(k, 20), prevH, h))
		}
		if _, dup := aggAt[k]; dup {
			out = append(out, o.v(b.H, "aggregation", "SetAggregatedReport", "round-aggregated-twice", "round %s has two aggregates in block %d", truncate(k, 20), h))
		}
		aggAt[k] = a
		o.aggregated[k] = b.H
		o.count("aggregates_seen")
		// unique reporters: a later report of the same reporter replaced the earlier one
		seen := map[string]bool{}
		for _, r := range a.Agg.Reporters {
			if seen[r.Reporter] {
				out = append(out, o.v(b.H, "aggregation", "Reports", "reporter-counted-twice", "aggregate of round %s lists reporter %s twice", truncate(k, 20), r.Reporter))
			}
			seen[r.Reporter] = true
		}
		if pm, ok := o.prevQ[k]; ok {
			if pm.Expiration > h {
				out = append(out, o.v(b.H, "aggregation", "SetAggregatedReport", "aggregated-before-window-closed", "round %s aggregated at height %d but its window was open until %d", truncate(k, 20), h, pm.Expiration))
			}
		}
		if _, still := curQ[k]; still {
			out = append(out, o.v(b.H, "aggregation", "SetAggregatedReport", "round-not-removed", "round %s aggregated but still present", truncate(k, 20)))
		}
	}
	for k, m := range curQ {
		if m.HasRevealedReports && m.Expiration <= h {
			out = append(out, o.v(b.H, "aggregation", "SetAggregatedReport", "closed-round-not-aggregated", "round %s has reports and its window closed at %d but it is still open after block %d", truncate(k, 20), m.Expiration, h))
		}
	}
	for k, pm := range o.prevQ {
		if _, still := curQ[k]; still {
			continue
		}
		// round gone: with reports -> exactly one aggregate now
		hadReports := pm.HasRevealedReports || reportedThisBlock[string(QueryID(pm.QueryData))]
		if hadReports {
			if _, ok := aggAt[k]; !ok && pm.HasRevealedReports {
				out = append(out, o.v(b.H, "aggregation", "SetAggregatedReport", "round-with-reports-vanished", "round %s had reports and disappeared in block %d without an aggregate", truncate(k, 20), h))
			}
		} else if pm.Amount.IsPositive() {
			// ---- C. a tip on a round without reports stays with the query
			out = append(out, o.v(b.H, "tips", "Query", "tip-lost", "round %s carried a tip of %s, had no reports, and disappeared in block %d", truncate(k, 20), pm.Amount, h))
		}
	}
	for k, pm := range o.prevQ {
		if cm, ok := curQ[k]; ok && !pm.HasRevealedReports && pm.Amount.IsPositive() && cm.Amount.LT(pm.Amount) {
			out = append(out, o.v(b.H, "tips", "Query", "tip-reduced", "round %s: unpaid tip shrank from %s to %s without an aggregate", truncate(k, 20), pm.Amount, cm.Amount))
		}
	}

	// ---- E. cycle-list rotation
	sameList := len(cycle) == len(o.prevCycle)
	if sameList {
		for i := range cycle {
			if !eqBytes(cycle[i], o.prevCycle[i]) {
				sameList = false
			}
		}
	}
	if sameList && len(cycle) > 0 && seq != o.prevSeq {
		o.count("rotations")
		n := uint64(len(cycle))
		want := (o.prevSeq + 1) % n
		if o.prevSeq >= n-1 {
			want = 0
		}
		if seq != want {
			out = append(out, o.v(b.H, "rotation", "CyclelistSequencer", "rotation-order", "cycle list moved from position %d to %d (length %d); the fixed order requires %d", o.prevSeq, seq, n, want))
		}
		if o.prevSeq < n {
			old := string(QueryID(cycle[o.prevSeq]))
			for _, pm := range prevByQid[old] {
				k := roundKey([]byte(old), pm.Id)
				if cm, ok := curQ[k]; ok && pm.Expiration > h && cm.Expiration > h {
					out = append(out, o.v(b.H, "rotation", "RotateQueries", "rotated-while-window-open", "cycle list moved on in block %d although the current query's round %d is open until %d", h, pm.Id, pm.Expiration))
				}
			}
		}
	} else if !sameList {
		o.count("cycle_list_replaced")
	}
	if len(out) == 0 && len(o.samples) < 2 && len(aggAt) > 0 {
		o.sample(fmt.Sprintf("h=%d rounds open before=%d after=%d aggregated now=%d cycle position %d->%d of %d", h, len(o.prevQ), len(curQ), len(aggAt), o.prevSeq, seq, len(cycle)))
	}
	return out
}

func (o *OracleC07) End(c *Chain) []*Violation { return nil }
