package sim

import (
	"bytes"
	"sort"

	oracletypes "github.com/tellor-io/layer/x/oracle/types"
	registrytypes "github.com/tellor-io/layer/x/registry/types"
	reportertypes "github.com/tellor-io/layer/x/reporter/types"

	"cosmossdk.io/collections"
	"cosmossdk.io/math"

	sdk "github.com/cosmos/cosmos-sdk/types"
	stakingtypes "github.com/cosmos/cosmos-sdk/x/staking/types"
)

// View reads committed state of a node through the application's exported collections (read-only).
type View struct {
	c   *Chain
	n   *Node
	ctx sdk.Context
}

func (c *Chain) View() *View {
	n := c.RefNode()
	if n == nil {
		return nil
	}
	return &View{c: c, n: n, ctx: c.Ctx(n)}
}

func (c *Chain) ViewOf(n *Node) *View { return &View{c: c, n: n, ctx: c.Ctx(n)} }

type ReporterInfo struct {
	Actor int
	Addr  sdk.AccAddress
	Rec   reportertypes.OracleReporter
}

func (v *View) Reporters() []ReporterInfo {
	var out []ReporterInfo
	_ = v.n.App.ReporterKeeper.Reporters.Walk(v.ctx, nil, func(k []byte, r reportertypes.OracleReporter) (bool, error) {
		out = append(out, ReporterInfo{Actor: v.c.Accounts.ActorByAddr(k), Addr: sdk.AccAddress(append([]byte{}, k...)), Rec: r})
		return false, nil
	})
	return out
}

type SelectorInfo struct {
	Actor    int
	Addr     sdk.AccAddress
	Reporter sdk.AccAddress
	Rec      reportertypes.Selection
}

func (v *View) Selectors() []SelectorInfo {
	var out []SelectorInfo
	_ = v.n.App.ReporterKeeper.Selectors.Walk(v.ctx, nil, func(k []byte, s reportertypes.Selection) (bool, error) {
		out = append(out, SelectorInfo{Actor: v.c.Accounts.ActorByAddr(k), Addr: sdk.AccAddress(append([]byte{}, k...)), Reporter: sdk.AccAddress(s.Reporter), Rec: s})
		return false, nil
	})
	return out
}

func (v *View) SelectorTips() map[string]math.LegacyDec {
	out := map[string]math.LegacyDec{}
	_ = v.n.App.ReporterKeeper.SelectorTips.Walk(v.ctx, nil, func(k []byte, d math.LegacyDec) (bool, error) {
		out[string(k)] = d
		return false, nil
	})
	return out
}

type QueryInfo struct {
	QueryID []byte
	Meta    oracletypes.QueryMeta
}

func (v *View) Queries() []QueryInfo {
	var out []QueryInfo
	_ = v.n.App.OracleKeeper.Query.Walk(v.ctx, nil, func(k collections.Pair[[]byte, uint64], q oracletypes.QueryMeta) (bool, error) {
		out = append(out, QueryInfo{QueryID: append([]byte{}, k.K1()...), Meta: q})
		return false, nil
	})
	return out
}

func (v *View) Cyclelist() [][]byte {
	var out [][]byte
	_ = v.n.App.OracleKeeper.Cyclelist.Walk(v.ctx, nil, func(k, qd []byte) (bool, error) {
		out = append(out, append([]byte{}, qd...))
		return false, nil
	})
	return out
}

func (v *View) CycleSeq() uint64 {
	x, _ := v.n.App.OracleKeeper.CyclelistSequencer.Peek(v.ctx)
	return x
}

type AggInfo struct {
	QueryID []byte
	TsMs    uint64
	Agg     oracletypes.Aggregate
}

func (v *View) Aggregates() []AggInfo {
	var out []AggInfo
	_ = v.n.App.OracleKeeper.Aggregates.Walk(v.ctx, nil, func(k collections.Pair[[]byte, uint64], a oracletypes.Aggregate) (bool, error) {
		out = append(out, AggInfo{QueryID: append([]byte{}, k.K1()...), TsMs: k.K2(), Agg: a})
		return false, nil
	})
	return out
}

type ReportInfo struct {
	QueryID  []byte
	Reporter sdk.AccAddress
	MetaID   uint64
	Rep      oracletypes.MicroReport
}

func (v *View) Reports() []ReportInfo {
	var out []ReportInfo
	_ = v.n.App.OracleKeeper.Reports.Walk(v.ctx, nil, func(k collections.Triple[[]byte, []byte, uint64], r oracletypes.MicroReport) (bool, error) {
		out = append(out, ReportInfo{QueryID: append([]byte{}, k.K1()...), Reporter: sdk.AccAddress(append([]byte{}, k.K2()...)), MetaID: k.K3(), Rep: r})
		return false, nil
	})
	return out
}

func (v *View) Balance(addr sdk.AccAddress) math.Int {
	return v.n.App.BankKeeper.GetBalance(v.ctx, addr, Denom).Amount
}

func (v *View) ModuleBalance(name string) math.Int {
	return v.Balance(v.n.App.AccountKeeper.GetModuleAddress(name))
}

func (v *View) Supply() math.Int { return v.n.App.BankKeeper.GetSupply(v.ctx, Denom).Amount }

func (v *View) Validators() []stakingtypes.Validator {
	vals, _ := v.n.App.StakingKeeper.GetAllValidators(v.ctx)
	sort.Slice(vals, func(i, j int) bool { return vals[i].OperatorAddress < vals[j].OperatorAddress })
	return vals
}

func (v *View) BondedTotal() math.Int {
	t, _ := v.n.App.StakingKeeper.TotalBondedTokens(v.ctx)
	return t
}

func (v *View) Delegations(del sdk.AccAddress) []stakingtypes.Delegation {
	ds, _ := v.n.App.StakingKeeper.GetAllDelegatorDelegations(v.ctx, del)
	return ds
}

func (v *View) AllDelegations() []stakingtypes.Delegation {
	ds, _ := v.n.App.StakingKeeper.GetAllDelegations(v.ctx)
	return ds
}

func (v *View) Validator(addr sdk.ValAddress) (stakingtypes.Validator, bool) {
	val, err := v.n.App.StakingKeeper.GetValidator(v.ctx, addr)
	return val, err == nil
}

// BondedStakeOf sums tokens the delegator has with bonded validators (truncated per delegation).
func (v *View) BondedStakeOf(del sdk.AccAddress) math.Int {
	t := math.ZeroInt()
	for _, d := range v.Delegations(del) {
		va, _ := sdk.ValAddressFromBech32(d.ValidatorAddress)
		val, ok := v.Validator(va)
		if ok && val.IsBonded() {
			t = t.Add(val.TokensFromShares(d.Shares).TruncateInt())
		}
	}
	return t
}

func (v *View) TrackerAmount() (math.Int, int64) {
	tr, err := v.n.App.ReporterKeeper.Tracker.Get(v.ctx)
	if err != nil || tr.Expiration == nil {
		return math.ZeroInt(), 0
	}
	return tr.Amount, tr.Expiration.UnixMilli()
}

func eqBytes(a, b []byte) bool { return bytes.Equal(a, b) }

func collJoinReport(queryID []byte, reporter sdk.AccAddress, height uint64) collections.Pair[[]byte, collections.Pair[[]byte, uint64]] {
	return collections.Join(queryID, collections.Join([]byte(reporter), height))
}

type SpecInfo struct {
	Type string
	Spec registrytypes.DataSpec
}

// Specs lists the registered data specs (keys are lower-cased query types).
func (v *View) Specs() []SpecInfo {
	var out []SpecInfo
	_ = v.n.App.RegistryKeeper.SpecRegistry.Walk(v.ctx, nil, func(k string, d registrytypes.DataSpec) (bool, error) {
		out = append(out, SpecInfo{Type: k, Spec: d})
		return false, nil
	})
	return out
}
