package sim

import (
	"strings"

	abci "github.com/cometbft/cometbft/abci/types"

	"cosmossdk.io/math"
)

// BankEv is one bank-module event (emitted by SDK code, not by Layer code): the observation point
// for money movement inside a block.
type BankEv struct {
	Kind   string // coinbase | burn | transfer
	From   string // sender / burner
	To     string // recipient / minter
	Amount math.Int
	Mode   string // "BeginBlock" | "EndBlock" | "" (tx)
	TxIdx  int    // -1 for block events
	MsgIdx string
}

func parseLoya(s string) math.Int {
	// "123loya" (single denom in this chain); empty string = zero
	t := math.ZeroInt()
	for _, part := range strings.Split(s, ",") {
		part = strings.TrimSpace(part)
		if strings.HasSuffix(part, Denom) {
			if v, ok := math.NewIntFromString(strings.TrimSuffix(part, Denom)); ok {
				t = t.Add(v)
			}
		}
	}
	return t
}

func attr(e abci.Event, key string) string {
	for _, a := range e.Attributes {
		if a.Key == key {
			return a.Value
		}
	}
	return ""
}

func bankEvents(evs []abci.Event, txIdx int) []BankEv {
	var out []BankEv
	for _, e := range evs {
		switch e.Type {
		case "coinbase":
			out = append(out, BankEv{Kind: "coinbase", To: attr(e, "minter"), Amount: parseLoya(attr(e, "amount")), Mode: attr(e, "mode"), TxIdx: txIdx, MsgIdx: attr(e, "msg_index")})
		case "burn":
			out = append(out, BankEv{Kind: "burn", From: attr(e, "burner"), Amount: parseLoya(attr(e, "amount")), Mode: attr(e, "mode"), TxIdx: txIdx, MsgIdx: attr(e, "msg_index")})
		case "transfer":
			out = append(out, BankEv{Kind: "transfer", From: attr(e, "sender"), To: attr(e, "recipient"), Amount: parseLoya(attr(e, "amount")), Mode: attr(e, "mode"), TxIdx: txIdx, MsgIdx: attr(e, "msg_index")})
		}
	}
	return out
}

// AllBankEvents returns the bank events of a block: block-level first, then per transaction.
func (b *BlockCtx) AllBankEvents() []BankEv {
	out := bankEvents(b.Res.Events, -1)
	for i, r := range b.Res.TxResults {
		if r.Code == 0 {
			out = append(out, bankEvents(r.Events, i)...)
		} else {
			// a failed tx only keeps its ante (fee) events
			out = append(out, bankEvents(r.Events, i)...)
		}
	}
	return out
}

// IntentOfTx returns the intent executed at tx index i (nil for the injected vote-extension tx).
func (c *Chain) IntentOfTx(b *BlockCtx, i int) *Intent {
	if i < 0 || i >= len(b.Txs) || b.Txs[i].IntentID < 0 {
		return nil
	}
	return c.Accounts.Intents[b.Txs[i].IntentID]
}

// eventsOfType collects events of a type from a tx result.
func eventsOfType(evs []abci.Event, typ string) []abci.Event {
	var out []abci.Event
	for _, e := range evs {
		if e.Type == typ {
			out = append(out, e)
		}
	}
	return out
}
