package sim

import (
	"encoding/hex"
	"fmt"
	"sort"
	"time"

	bridgetypes "github.com/tellor-io/layer/x/bridge/types"
	oraclekeeper "github.com/tellor-io/layer/x/oracle/keeper"
	oracletypes "github.com/tellor-io/layer/x/oracle/types"
)

// OracleC08 — aggregate history is append-only, time-ordered and correctly retrievable.
type OracleC08 struct {
	counters
	prev     map[string]AggInfo // key queryId|ts
	prevSnap map[string]bool
	rot      int
}

func NewOracleC08() *OracleC08 {
	return &OracleC08{counters: newCounters(), prev: map[string]AggInfo{}, prevSnap: map[string]bool{}}
}

func (o *OracleC08) ID() string { return "C08" }

func (o *OracleC08) v(h int64, oracle, site, class, f string, a ...any) *Violation {
	return &Violation{Property: "C08", Oracle: oracle, Site: site, Class: class, Height: h, Msg: fmt.Sprintf(f, a...)}
}

func aggKey(a AggInfo) string { return fmt.Sprintf("%x|%020d", a.QueryID, a.TsMs) }

// determining report of an aggregate: (query, reporter at AggregateReportIndex, micro height)
func determining(a AggInfo) (string, uint64, bool) {
	if int(a.Agg.AggregateReportIndex) >= len(a.Agg.Reporters) {
		return "", 0, false
	}
	return a.Agg.Reporters[a.Agg.AggregateReportIndex].Reporter, a.Agg.MicroHeight, true
}

func (o *OracleC08) AfterBlock(c *Chain, b *BlockCtx) []*Violation {
	var out []*Violation
	v := c.ViewOf(b.Ref)
	all := v.Aggregates()
	cur := map[string]AggInfo{}
	byQuery := map[string][]AggInfo{}
	for _, a := range all {
		cur[aggKey(a)] = a
		k := string(a.QueryID)
		byQuery[k] = append(byQuery[k], a)
	}
	for k := range byQuery {
		l := byQuery[k]
		sort.Slice(l, func(i, j int) bool { return l[i].TsMs < l[j].TsMs })
	}

	// ---- 1. old entries unchanged, except Flagged false->true with a funded dispute / evidence naming the determining report
	for k, p := range o.prev {
		n, ok := cur[k]
		if !ok {
			out = append(out, o.v(b.H, "append-only", "aggregates", "aggregate-removed", "aggregate of query %x at %d disappeared", p.QueryID[:4], p.TsMs))
			continue
		}
		pf, nf := p.Agg.Flagged, n.Agg.Flagged
		pa, na := p.Agg, n.Agg
		pa.Flagged, na.Flagged = false, false
		if pa.String() != na.String() {
			out = append(out, o.v(b.H, "append-only", "aggregates", "aggregate-altered", "stored aggregate of query %x at %d changed: %s -> %s", p.QueryID[:4], p.TsMs, truncate(pa.String(), 160), truncate(na.String(), 160)))
			continue
		}
		if pf && !nf {
			out = append(out, o.v(b.H, "append-only", "aggregates", "unflagged", "aggregate of query %x at %d lost its flag", p.QueryID[:4], p.TsMs))
		}
		if !pf && nf {
			o.count("flag_transitions")
			if !o.flagJustified(c, b, v, n) {
				rep, mh, _ := determining(n)
				out = append(out, o.v(b.H, "append-only", "aggregates", "flagged-without-dispute", "aggregate of query %x at %d became flagged in block %d although no funded dispute or evidence in this block names its determining report (%s at height %d)", p.QueryID[:4], p.TsMs, b.H, rep, mh))
			}
		}
	}
	// ---- 2. new entries: created now, timestamp = block time > all earlier ones, index = previous + 1
	created := map[string][]AggInfo{}
	for k, n := range cur {
		if _, ok := o.prev[k]; ok {
			continue
		}
		o.count("new_aggregates")
		created[string(n.QueryID)] = append(created[string(n.QueryID)], n)
		if n.Agg.Height != uint64(b.H) {
			out = append(out, o.v(b.H, "ordering", "aggregates", "new-entry-wrong-height", "new aggregate of query %x records height %d in block %d", n.QueryID[:4], n.Agg.Height, b.H))
		}
		if n.TsMs != uint64(b.Time.UnixMilli()) {
			out = append(out, o.v(b.H, "ordering", "aggregates", "timestamp-not-block-time", "new aggregate of query %x keyed %d, block time %d", n.QueryID[:4], n.TsMs, b.Time.UnixMilli()))
		}
	}
	for q, l := range byQuery {
		if len(created[q]) == 0 {
			continue
		}
		for i := 1; i < len(l); i++ {
			if l[i].TsMs <= l[i-1].TsMs {
				out = append(out, o.v(b.H, "ordering", "aggregates", "timestamps-not-increasing", "query %x: timestamps %d then %d", l[i].QueryID[:4], l[i-1].TsMs, l[i].TsMs))
			}
			if l[i].Agg.Index != l[i-1].Agg.Index+1 {
				out = append(out, o.v(b.H, "ordering", "aggregates", "index-gap", "query %x: per-query sequence numbers %d then %d (an aggregate was skipped or overwritten)", l[i].QueryID[:4], l[i-1].Agg.Index, l[i].Agg.Index))
			}
		}
		if l[0].Agg.Index != 1 {
			out = append(out, o.v(b.H, "ordering", "aggregates", "index-gap", "query %x: first aggregate has sequence number %d", l[0].QueryID[:4], l[0].Agg.Index))
		}
	}
	// ---- 3. getter probes
	var qs []string
	for q := range created {
		qs = append(qs, q)
	}
	var others []string
	for q := range byQuery {
		if _, ok := created[q]; !ok {
			others = append(others, q)
		}
	}
	sort.Strings(qs)
	sort.Strings(others)
	for i := 0; i < 2 && len(others) > 0; i++ {
		o.rot++
		qs = append(qs, others[o.rot%len(others)])
	}
	if len(qs) > 6 {
		qs = qs[:6]
	}
	for _, q := range qs {
		out = append(out, o.probe(c, b, v, []byte(q), byQuery[q])...)
		if len(out) > 0 {
			break
		}
	}
	// by height
	var wantH []string
	for _, a := range all {
		if a.Agg.Height == uint64(b.H) {
			wantH = append(wantH, aggKey(a))
		}
	}
	gotH := b.Ref.App.OracleKeeper.GetAggregatedReportsByHeight(v.ctx, uint64(b.H))
	if len(gotH) != len(wantH) {
		out = append(out, o.v(b.H, "getters", "GetAggregatedReportsByHeight", "by-height-mismatch", "height %d: getter returns %d aggregates, the list has %d", b.H, len(gotH), len(wantH)))
	}
	// ---- 4. snapshot neighbours
	out = append(out, o.snapshots(c, b, v, byQuery)...)
	o.prev = cur
	return out
}

func (o *OracleC08) flagJustified(c *Chain, b *BlockCtx, v *View, a AggInfo) bool {
	rep, mh, ok := determining(a)
	if !ok {
		return false
	}
	match := func(r *ReportSpec) bool {
		return r != nil && r.Block == mh && c.Accounts.Addr(r.Reporter).String() == rep && eqBytes(QueryID(QueryDataOf(r.Q)), a.QueryID)
	}
	disputes := v.Disputes()
	for i, tr := range b.Txs {
		in := c.IntentOfTx(b, i)
		if in == nil || tr.Code != 0 {
			continue
		}
		for mi := range in.Msgs {
			m := &in.Msgs[mi]
			switch m.K {
			case "propose_dispute":
				if match(m.Rep) {
					return true
				}
			case "add_evidence":
				for ri := range m.Reps {
					if match(&m.Reps[ri]) {
						return true
					}
				}
			case "add_fee":
				for _, d := range disputes {
					if d.D.DisputeId == m.U && d.D.InitialEvidence.BlockNumber == mh && d.D.InitialEvidence.Reporter == rep && eqBytes(d.D.InitialEvidence.QueryId, a.QueryID) {
						return true
					}
				}
			}
		}
	}
	return false
}

func (o *OracleC08) probe(c *Chain, b *BlockCtx, v *View, qid []byte, l []AggInfo) []*Violation {
	var out []*Violation
	k := b.Ref.App.OracleKeeper
	ctx := v.ctx
	bad := func(site, class, f string, a ...any) {
		out = append(out, o.v(b.H, "getters", site, class, "query %x (%d aggregates): %s", qid[:4], len(l), fmt.Sprintf(f, a...)))
	}
	n := len(l)
	// current
	cur, ts, err := k.GetCurrentAggregateReport(ctx, qid)
	o.count("probe_calls")
	if n == 0 {
		if err == nil {
			bad("GetCurrentAggregateReport", "current-on-empty", "returns an aggregate although none exists")
		}
		return out
	}
	if err != nil || cur == nil || uint64(ts.UnixMilli()) != l[n-1].TsMs || cur.Index != l[n-1].Agg.Index {
		bad("GetCurrentAggregateReport", "current-mismatch", "current should be the entry at %d, got ts=%v err=%v", l[n-1].TsMs, ts.UnixMilli(), err)
	}
	// argument set
	args := map[uint64]bool{0: true, 1: true, l[n-1].TsMs + 1000: true, 1 << 62: true}
	for i, a := range l {
		if i < 2 || i >= n-3 || i == n/2 {
			args[a.TsMs-1], args[a.TsMs], args[a.TsMs+1] = true, true, true
		}
	}
	var ts64 []uint64
	for t := range args {
		ts64 = append(ts64, t)
	}
	sort.Slice(ts64, func(i, j int) bool { return ts64[i] < ts64[j] })
	q := oraclekeeper.NewQuerier(k)
	for _, T := range ts64 {
		tt := time.UnixMilli(int64(T))
		// reference from the list
		var beforeAny, beforeUnflagged, after *AggInfo
		for i := range l {
			if l[i].TsMs < T {
				beforeAny = &l[i]
				if !l[i].Agg.Flagged {
					beforeUnflagged = &l[i]
				}
			}
			if l[i].TsMs > T && after == nil {
				after = &l[i]
			}
		}
		o.add("probe_calls", 5)
		// data before T skips flagged entries
		ag, gts, err := k.GetAggregateBefore(ctx, qid, tt)
		if beforeUnflagged == nil {
			if err == nil {
				bad("GetAggregateBefore", "before-mismatch", "T=%d: nothing unflagged lies before, getter returned ts=%d", T, gts.UnixMilli())
			}
		} else if err != nil || ag == nil || uint64(gts.UnixMilli()) != beforeUnflagged.TsMs || ag.Flagged {
			bad("GetAggregateBefore", "before-mismatch", "T=%d: expected the unflagged entry at %d, got ts=%d err=%v", T, beforeUnflagged.TsMs, gts.UnixMilli(), err)
		}
		// querier (what consumers call)
		resp, qerr := q.GetDataBefore(ctx, &oracletypes.QueryGetDataBeforeRequest{QueryId: hex.EncodeToString(qid), Timestamp: T})
		if beforeUnflagged == nil {
			if qerr == nil && resp != nil && resp.Aggregate != nil {
				bad("GetDataBefore", "before-mismatch", "T=%d: nothing unflagged lies before, query returned ts=%d", T, resp.Timestamp)
			}
		} else if qerr != nil || resp == nil || resp.Timestamp != beforeUnflagged.TsMs {
			bad("GetDataBefore", "before-mismatch", "T=%d: expected %d, query error %v", T, beforeUnflagged.TsMs, qerr)
		}
		// timestamp before / after (no skipping)
		tb, err := k.GetTimestampBefore(ctx, qid, tt)
		if beforeAny == nil {
			if err == nil {
				bad("GetTimestampBefore", "ts-before-mismatch", "T=%d: no earlier entry, getter returned %d", T, tb.UnixMilli())
			}
		} else if err != nil || uint64(tb.UnixMilli()) != beforeAny.TsMs {
			bad("GetTimestampBefore", "ts-before-mismatch", "T=%d: expected %d got %d err=%v", T, beforeAny.TsMs, tb.UnixMilli(), err)
		}
		ta, err := k.GetTimestampAfter(ctx, qid, tt)
		if after == nil {
			if err == nil {
				bad("GetTimestampAfter", "ts-after-mismatch", "T=%d: no later entry, getter returned %d", T, ta.UnixMilli())
			}
		} else if err != nil || uint64(ta.UnixMilli()) != after.TsMs {
			bad("GetTimestampAfter", "ts-after-mismatch", "T=%d: expected %d got %d err=%v", T, after.TsMs, ta.UnixMilli(), err)
		}
		// by timestamp
		got, err := k.GetAggregateByTimestamp(ctx, qid, tt)
		var exact *AggInfo
		for i := range l {
			if l[i].TsMs == T {
				exact = &l[i]
			}
		}
		if exact == nil && err == nil {
			bad("GetAggregateByTimestamp", "by-timestamp-mismatch", "T=%d is not stored but the getter returned index %d", T, got.Index)
		}
		if exact != nil && (err != nil || got.Index != exact.Agg.Index) {
			bad("GetAggregateByTimestamp", "by-timestamp-mismatch", "T=%d stored with index %d, getter: index %d err %v", T, exact.Agg.Index, got.Index, err)
		}
		if len(out) > 0 {
			return out
		}
	}
	// by index (0-based position in creation order)
	for i := 0; i <= n+1; i++ {
		if i > 3 && i < n-2 {
			continue
		}
		ag, its, err := k.GetAggregateByIndex(ctx, qid, uint64(i))
		o.count("probe_calls")
		if i < n {
			if err != nil || ag == nil || uint64(its.UnixMilli()) != l[i].TsMs {
				bad("GetAggregateByIndex", "by-index-mismatch", "index %d should be the entry at %d, got ts=%d err=%v", i, l[i].TsMs, its.UnixMilli(), err)
			}
		} else if err == nil {
			bad("GetAggregateByIndex", "by-index-mismatch", "index %d is out of range (%d entries) but the getter returned ts=%d", i, n, its.UnixMilli())
		}
	}
	if len(out) == 0 && n >= 2 && len(o.samples) < 2 {
		var tss []uint64
		fl := 0
		for _, a := range l {
			tss = append(tss, a.TsMs)
			if a.Agg.Flagged {
				fl++
			}
		}
		o.sample(fmt.Sprintf("h=%d query %x: %d aggregates (%d flagged), %d probe timestamps, indexes 0..%d", b.H, qid[:4], n, fl, len(ts64), n+1))
	}
	return out
}

func (o *OracleC08) snapshots(c *Chain, b *BlockCtx, v *View, byQuery map[string][]AggInfo) []*Violation {
	var out []*Violation
	cur := map[string]bool{}
	_ = b.Ref.App.BridgeKeeper.AttestSnapshotDataMap.Walk(v.ctx, nil, func(k []byte, d bridgetypes.AttestationSnapshotData) (bool, error) {
		key := string(k)
		cur[key] = true
		if o.prevSnap[key] {
			return false, nil
		}
		o.count("snapshots_checked")
		l := byQuery[string(d.QueryId)]
		// was it requested by a transaction of this block? then this block's end-of-block aggregates did not exist yet
		fromTx := false
		for i, tr := range b.Txs {
			in := c.IntentOfTx(b, i)
			if in == nil || tr.Code != 0 {
				continue
			}
			for _, m := range in.Msgs {
				if m.K == "request_attestations" && m.V == fmt.Sprint(d.Timestamp) {
					fromTx = true
				}
			}
		}
		var prev, next uint64
		for _, a := range l {
			if fromTx && a.Agg.Height == uint64(b.H) && len(a.Agg.Reporters) > 0 {
				continue
			}
			if a.TsMs < d.Timestamp {
				prev = a.TsMs
			}
			if a.TsMs > d.Timestamp && next == 0 {
				next = a.TsMs
			}
		}
		if d.PrevReportTimestamp != prev || d.NextReportTimestamp != next {
			out = append(out, o.v(b.H, "snapshot", "AttestSnapshotData", "neighbour-timestamps", "snapshot of query %x report %d records prev=%d next=%d, the list implies prev=%d next=%d", d.QueryId[:4], d.Timestamp, d.PrevReportTimestamp, d.NextReportTimestamp, prev, next))
		}
		return false, nil
	})
	o.prevSnap = cur
	return out
}

func (o *OracleC08) End(c *Chain) []*Violation { return nil }
