package sim

import (
	"encoding/hex"
	"encoding/json"
	"fmt"
	"reflect"
	"time"

	abci "github.com/cometbft/cometbft/abci/types"
	"github.com/tellor-io/layer/app"
)

// ExtMutation is a Byzantine validator's vote-extension payload (F8), PRNG-free.
type ExtMutation struct {
	Kind  string `json:"kind"`            // raw | empty | json | replay | dup_attest | oversize | extra_attest | foreign_ts
	Hex   string `json:"hex,omitempty"`   // raw payload
	Text  string `json:"text,omitempty"`  // json payload
	Other int    `json:"other,omitempty"` // node idx whose public extension is replayed
	Back  int64  `json:"back,omitempty"`  // how many heights back
}

func (m ExtMutation) honest(c *Chain, n *Node, h int64) []byte {
	if c.Cfg.KeyringShipped {
		n.selectKeyring()
	}
	r, err := n.App.ExtendVote(nil, &abci.RequestExtendVote{Height: h, Hash: blockHash(h), Time: c.LastTime})
	if err != nil || r == nil {
		return []byte("{}")
	}
	return r.VoteExtension
}

func (m ExtMutation) Payload(c *Chain, n *Node, h int64) []byte {
	switch m.Kind {
	case "raw":
		b, _ := hex.DecodeString(m.Hex)
		return b
	case "empty":
		return nil
	case "json":
		return []byte(m.Text)
	case "replay":
		// re-send an extension that some validator published earlier (public information)
		hh := h - 1 - m.Back
		if hh >= 1 && hh <= c.Height() {
			for _, v := range c.Blocks[hh-1].ExtVotes {
				if c.consIdxByAddr(v.Validator.Address) == c.Nodes[m.Other%len(c.Nodes)].ConsIdx && len(v.VoteExtension) > 0 {
					return v.VoteExtension
				}
			}
		}
		return m.honest(c, n, h)
	}
	var ve app.BridgeVoteExtension
	if err := json.Unmarshal(m.honest(c, n, h), &ve); err != nil {
		return []byte("{}")
	}
	switch m.Kind {
	case "dup_attest":
		ve.OracleAttestations = append(ve.OracleAttestations, ve.OracleAttestations...)
	case "extra_attest":
		ve.OracleAttestations = append(ve.OracleAttestations, app.OracleAttestation{Snapshot: Keccak([]byte("fabricated")), Attestation: make([]byte, 65)})
	case "oversize":
		ve.ValsetSignature.Signature = make([]byte, 66)
		ve.InitialSignature.SignatureA = make([]byte, 66)
	case "foreign_ts":
		ve.ValsetSignature.Timestamp += 12345
		if len(ve.ValsetSignature.Signature) == 0 {
			ve.ValsetSignature.Signature = make([]byte, 64)
		}
	case "zero_sigs":
		ve.InitialSignature.SignatureA = make([]byte, 64)
		ve.InitialSignature.SignatureB = make([]byte, 64)
	}
	bz, _ := json.Marshal(ve)
	return bz
}

// ProposalMutation is one single-element tampering of the injected vote-extension tx.
type ProposalMutation struct {
	Kind  string `json:"kind"` // alter | drop | append | dup | commit_ext | commit_drop | commit_flag | not_json | height | swap
	List  string `json:"list"` // op_addrs | evm_addrs | vs_ops | vs_ts | vs_sigs | oa_ops | oa_att | oa_snap
	Index int    `json:"index"`
}

func mutStrings(xs []string, kind string, idx int, fresh string) ([]string, bool) {
	out := append([]string{}, xs...)
	switch kind {
	case "alter":
		if len(out) == 0 {
			return nil, false
		}
		out[idx%len(out)] = fresh
	case "drop":
		if len(out) == 0 {
			return nil, false
		}
		i := idx % len(out)
		out = append(out[:i], out[i+1:]...)
	case "append":
		out = append(out, fresh)
	case "dup":
		if len(out) == 0 {
			return nil, false
		}
		out = append(out, out[idx%len(out)])
	case "swap":
		if len(out) < 2 {
			return nil, false
		}
		i := idx % (len(out) - 1)
		out[i], out[i+1] = out[i+1], out[i]
		if out[i] == out[i+1] {
			return nil, false
		}
	default:
		return nil, false
	}
	return out, true
}

func mutBytes(xs [][]byte, kind string, idx int, fresh []byte) ([][]byte, bool) {
	ss := make([]string, len(xs))
	for i, x := range xs {
		ss[i] = string(x)
	}
	out, ok := mutStrings(ss, kind, idx, string(fresh))
	if !ok {
		return nil, false
	}
	bs := make([][]byte, len(out))
	for i, s := range out {
		bs[i] = []byte(s)
	}
	return bs, true
}

func mutInts(xs []int64, kind string, idx int, fresh int64) ([]int64, bool) {
	out := append([]int64{}, xs...)
	switch kind {
	case "alter":
		if len(out) == 0 {
			return nil, false
		}
		out[idx%len(out)] += fresh
	case "drop":
		if len(out) == 0 {
			return nil, false
		}
		i := idx % len(out)
		out = append(out[:i], out[i+1:]...)
	case "append":
		out = append(out, fresh)
	case "dup":
		if len(out) == 0 {
			return nil, false
		}
		out = append(out, out[idx%len(out)])
	default:
		return nil, false
	}
	return out, true
}

// tamperProbe feeds a mutated proposal to every voter; any ACCEPT of a proposal whose injected
// lists differ from what the embedded commit's extensions contain is a C17 violation. Side-effect free.
func (e *Executor) tamperProbe(h int64, t time.Time, hash []byte, txs [][]byte, lastCommit abci.CommitInfo, proposer []byte, m *ProposalMutation, voters []*Node) {
	c := e.C
	if h <= 1 || len(txs) == 0 {
		return
	}
	var orig app.VoteExtTx
	if err := json.Unmarshal(txs[0], &orig); err != nil {
		return
	}
	mut := orig
	var newTx0 []byte
	expectReject := true
	observeOnly := false
	switch m.Kind {
	case "not_json":
		newTx0 = []byte("\x00not json")
	case "height":
		mut.BlockHeight += 7
		observeOnly = true
	case "commit_ext", "commit_drop", "commit_flag":
		eci := orig.ExtendedCommitInfo
		eci.Votes = append([]abci.ExtendedVoteInfo{}, eci.Votes...)
		if len(eci.Votes) == 0 {
			return
		}
		i := m.Index % len(eci.Votes)
		if eci.Votes[i].BlockIdFlag != 2 {
			return // only commit votes carry extensions
		}
		ci := c.consIdxByAddr(eci.Votes[i].Validator.Address)
		if ci < 0 {
			return
		}
		oper := ValAddr(c.Keys.ValOp[ci]).String()
		contributes := containsStr(orig.OpAndEVMAddrs.OperatorAddresses, oper) || containsStr(orig.ValsetSigs.OperatorAddresses, oper) || containsStr(orig.OracleAttestations.OperatorAddresses, oper)
		switch m.Kind {
		case "commit_ext":
			// forge the extension of vote i (new or altered validator-set signature) and make the injected
			// lists consistent with the forged commit: only the extension signature check can refuse it.
			var ve app.BridgeVoteExtension
			if err := json.Unmarshal(eci.Votes[i].VoteExtension, &ve); err != nil {
				return
			}
			pos := 0
			for j := 0; j < i; j++ {
				var o app.BridgeVoteExtension
				if eci.Votes[j].BlockIdFlag == 2 && json.Unmarshal(eci.Votes[j].VoteExtension, &o) == nil && len(o.ValsetSignature.Signature) > 0 {
					pos++
				}
			}
			vs := orig.ValsetSigs
			ops := append([]string{}, vs.OperatorAddresses...)
			tss := append([]int64{}, vs.Timestamps...)
			sigs := append([]string{}, vs.Signatures...)
			if len(ve.ValsetSignature.Signature) > 0 {
				if pos >= len(sigs) {
					return
				}
				ns := append([]byte{}, ve.ValsetSignature.Signature...)
				ns[0] ^= 0x55
				ve.ValsetSignature.Signature = ns
				sigs[pos] = hex.EncodeToString(ns)
			} else {
				ns := make([]byte, 64)
				ns[3] = 7
				ve.ValsetSignature = app.BridgeValsetSignature{Signature: ns, Timestamp: 1}
				ops = append(ops[:pos], append([]string{oper}, ops[pos:]...)...)
				tss = append(tss[:pos], append([]int64{1}, tss[pos:]...)...)
				sigs = append(sigs[:pos], append([]string{hex.EncodeToString(ns)}, sigs[pos:]...)...)
			}
			mut.ValsetSigs = app.ValsetSignatures{OperatorAddresses: ops, Timestamps: tss, Signatures: sigs}
			v := eci.Votes[i]
			v.VoteExtension, _ = json.Marshal(ve)
			eci.Votes[i] = v
		case "commit_drop":
			if !contributes {
				return // nothing injected came from this vote: the statement does not require rejection
			}
			eci.Votes = append(eci.Votes[:i], eci.Votes[i+1:]...)
		case "commit_flag":
			if !contributes {
				return
			}
			v := eci.Votes[i]
			v.BlockIdFlag = 1 // absent: its extension no longer counts, yet its data stays injected
			eci.Votes[i] = v
		}
		mut.ExtendedCommitInfo = eci
	default:
		ok := false
		fresh := "tellorvaloper1fabricated" + fmt.Sprint(m.Index)
		switch m.List {
		case "op_addrs":
			mut.OpAndEVMAddrs.OperatorAddresses, ok = mutStrings(orig.OpAndEVMAddrs.OperatorAddresses, m.Kind, m.Index, fresh)
		case "evm_addrs":
			mut.OpAndEVMAddrs.EVMAddresses, ok = mutStrings(orig.OpAndEVMAddrs.EVMAddresses, m.Kind, m.Index, "0x00000000000000000000000000000000deadbeef")
		case "vs_ops":
			mut.ValsetSigs.OperatorAddresses, ok = mutStrings(orig.ValsetSigs.OperatorAddresses, m.Kind, m.Index, fresh)
		case "vs_sigs":
			mut.ValsetSigs.Signatures, ok = mutStrings(orig.ValsetSigs.Signatures, m.Kind, m.Index, hex.EncodeToString(make([]byte, 64)))
		case "vs_ts":
			mut.ValsetSigs.Timestamps, ok = mutInts(orig.ValsetSigs.Timestamps, m.Kind, m.Index, 1)
		case "oa_ops":
			mut.OracleAttestations.OperatorAddresses, ok = mutStrings(orig.OracleAttestations.OperatorAddresses, m.Kind, m.Index, fresh)
		case "oa_att":
			mut.OracleAttestations.Attestations, ok = mutBytes(orig.OracleAttestations.Attestations, m.Kind, m.Index, make([]byte, 64))
		case "oa_snap":
			mut.OracleAttestations.Snapshots, ok = mutBytes(orig.OracleAttestations.Snapshots, m.Kind, m.Index, Keccak([]byte("snap")))
		}
		if !ok {
			return
		}
		if reflect.DeepEqual(mut.OpAndEVMAddrs, orig.OpAndEVMAddrs) && reflect.DeepEqual(mut.ValsetSigs, orig.ValsetSigs) && reflect.DeepEqual(mut.OracleAttestations, orig.OracleAttestations) {
			return
		}
	}
	if newTx0 == nil {
		bz, err := json.Marshal(mut)
		if err != nil {
			return
		}
		newTx0 = bz
	}
	mtxs := append([][]byte{newTx0}, txs[1:]...)
	c.Stats.Fault("F8_byz_proposal_" + m.Kind)
	for _, n := range voters {
		if !n.Up {
			continue
		}
		r, err := n.App.ProcessProposal(&abci.RequestProcessProposal{Height: h, Time: t, Txs: mtxs, ProposedLastCommit: lastCommit, Hash: hash, ProposerAddress: proposer})
		if err != nil {
			e.report(&Violation{Property: "C17", Oracle: "handler-error", Site: "ProcessProposal", Class: "error-on-tampered", Height: h, Msg: err.Error()})
			return
		}
		if observeOnly {
			if r.Status == abci.ResponseProcessProposal_ACCEPT {
				c.Stats.Probe["tamper_block_height_accepted(observation)"]++
			}
			continue
		}
		if expectReject && r.Status == abci.ResponseProcessProposal_ACCEPT {
			e.report(&Violation{Property: "C17", Oracle: "tamper-reject", Site: "ProcessProposal", Class: "accepted-" + m.Kind + "-" + m.List, Height: h,
				Msg: fmt.Sprintf("height %d: node %d ACCEPTED a proposal whose injected data was tampered (%s %s index %d)", h, n.Idx, m.Kind, m.List, m.Index)})
			return
		}
		c.Stats.Probe["tamper_rejected"]++
	}
	// restore the honest proposal state in every voter (ProcessProposal resets its own state per call, but be explicit)
	for _, n := range voters {
		if n.Up {
			n.App.ProcessProposal(&abci.RequestProcessProposal{Height: h, Time: t, Txs: txs, ProposedLastCommit: lastCommit, Hash: hash, ProposerAddress: proposer})
		}
	}
}

func containsStr(xs []string, x string) bool {
	for _, y := range xs {
		if y == x {
			return true
		}
	}
	return false
}
