package sim

import (
	"fmt"
	"math/big"
	"sort"
	"time"

	disputetypes "github.com/tellor-io/layer/x/dispute/types"

	"cosmossdk.io/collections"
	"cosmossdk.io/math"

	sdk "github.com/cosmos/cosmos-sdk/types"
)

// DisputeTracker is the input-driven shadow ledger shared by the C11/C12/C13 oracles (ref.Dispute):
// who paid what, who tipped what and when, what each block's dispute-related transactions were.
type DisputeTracker struct {
	h        int64
	paid     map[uint64]map[string]*big.Int // first-round dispute id of the hash -> payer -> total paid (all rounds)
	rootOf   map[uint64]uint64              // dispute id -> id of the first round with the same hash
	tips     map[string][]tipRec            // tipper -> cumulative (height, total)
	totTips  []tipRec
	prev     map[uint64]DisputeInfo
	cur      map[uint64]DisputeInfo
	prevBal  *big.Int        // dispute module balance at the end of the previous block
	refunded map[string]bool // disputeId|payer
	claimed  map[string]bool // disputeId|voter
	execAt   map[uint64]int64
	fundedAt map[uint64]int64
}

type tipRec struct {
	h     uint64
	total *big.Int
}

func NewDisputeTracker() *DisputeTracker {
	return &DisputeTracker{paid: map[uint64]map[string]*big.Int{}, rootOf: map[uint64]uint64{}, tips: map[string][]tipRec{}, prev: map[uint64]DisputeInfo{}, cur: map[uint64]DisputeInfo{},
		refunded: map[string]bool{}, claimed: map[string]bool{}, execAt: map[uint64]int64{}, fundedAt: map[uint64]int64{}}
}

// ids returns the known dispute ids in ascending order (oracles iterate in a fixed order so that the first
// violation of a block is the same on every execution).
func (t *DisputeTracker) ids() []uint64 {
	out := make([]uint64, 0, len(t.cur))
	for id := range t.cur {
		out = append(out, id)
	}
	sort.Slice(out, func(i, j int) bool { return out[i] < out[j] })
	return out
}

func (t *DisputeTracker) tipsAt(addr string, h uint64) *big.Int {
	out := new(big.Int)
	for _, r := range t.tips[addr] {
		if r.h <= h {
			out = r.total
		}
	}
	return out
}

func (t *DisputeTracker) totalTipsAt(h uint64) *big.Int {
	out := new(big.Int)
	for _, r := range t.totTips {
		if r.h <= h {
			out = r.total
		}
	}
	return out
}

// update is called by every dispute oracle; it does its work once per block.
func (t *DisputeTracker) update(c *Chain, b *BlockCtx) {
	if t.h == b.H {
		return
	}
	t.h = b.H
	v := c.ViewOf(b.Ref)
	t.prev = t.cur
	t.cur = map[uint64]DisputeInfo{}
	for _, d := range v.Disputes() {
		t.cur[d.D.DisputeId] = d
		root := d.D.DisputeId
		if len(d.D.PrevDisputeIds) > 0 {
			root = d.D.PrevDisputeIds[0]
		}
		t.rootOf[d.D.DisputeId] = root
		if d.V != nil && d.V.Executed {
			if _, ok := t.execAt[d.D.DisputeId]; !ok {
				t.execAt[d.D.DisputeId] = b.H
			}
		}
		if d.D.DisputeStatus != disputetypes.Prevote && d.D.DisputeStatus != disputetypes.Failed {
			if _, ok := t.fundedAt[d.D.DisputeId]; !ok {
				t.fundedAt[d.D.DisputeId] = b.H
			}
		}
	}
	// tips (net of the 2 % burn) per tipper
	for i, tr := range b.Txs {
		in := c.IntentOfTx(b, i)
		if in == nil || tr.Code != 0 {
			continue
		}
		for mi := range in.Msgs {
			m := &in.Msgs[mi]
			if m.K != "tip" {
				continue
			}
			who := in.Actor
			if m.As != nil {
				who = *m.As
			}
			amt := parseInt(m.N).BigInt()
			net := new(big.Int).Sub(amt, new(big.Int).Div(new(big.Int).Mul(amt, big.NewInt(2)), big.NewInt(100)))
			k := string(c.Accounts.Addr(who))
			last := new(big.Int)
			if l := t.tips[k]; len(l) > 0 {
				last = l[len(l)-1].total
			}
			t.tips[k] = append(t.tips[k], tipRec{uint64(b.H), new(big.Int).Add(last, net)})
			lt := new(big.Int)
			if len(t.totTips) > 0 {
				lt = t.totTips[len(t.totTips)-1].total
			}
			t.totTips = append(t.totTips, tipRec{uint64(b.H), new(big.Int).Add(lt, net)})
		}
	}
}

func findAttr(tr *TxRecord, typ, key string) (string, bool) {
	for _, e := range tr.Events {
		if e.Type == typ {
			return attr(e, key), true
		}
	}
	return "", false
}

// ======================================================================================= C11

// OracleC11 — slashing takes exactly the category's share of the disputed report's stake.
type OracleC11 struct {
	counters
	t        *DisputeTracker
	prevBack map[string]*big.Int // delegator -> bonded + unbonding holdings at the end of the previous block
}

func NewOracleC11(t *DisputeTracker) *OracleC11 {
	return &OracleC11{counters: newCounters(), t: t, prevBack: map[string]*big.Int{}}
}
func (o *OracleC11) ID() string { return "C11" }

func (o *OracleC11) v(h int64, site, class, f string, a ...any) *Violation {
	return &Violation{Property: "C11", Oracle: "slash", Site: site, Class: class, Height: h, Msg: fmt.Sprintf(f, a...)}
}

func holdings(v *View, addr sdk.AccAddress) *big.Int {
	t := new(big.Int)
	for _, d := range v.Delegations(addr) {
		va, _ := sdk.ValAddressFromBech32(d.ValidatorAddress)
		if val, ok := v.Validator(va); ok {
			t.Add(t, val.TokensFromShares(d.Shares).TruncateInt().BigInt())
		}
	}
	ubds, _ := v.n.App.StakingKeeper.GetAllUnbondingDelegations(v.ctx, addr)
	for _, u := range ubds {
		for _, e := range u.Entries {
			t.Add(t, e.Balance.BigInt())
		}
	}
	return t
}

func (o *OracleC11) AfterBlock(c *Chain, b *BlockCtx) []*Violation {
	o.t.update(c, b)
	var out []*Violation
	v := c.ViewOf(b.Ref)
	curBack := map[string]*big.Int{}
	for _, a := range c.Accounts.Actors {
		curBack[string(a.Addr)] = holdings(v, a.Addr)
	}
	defer func() { o.prevBack = curBack }()

	// actors with their own stake-moving transactions in this block (their holdings change for other reasons)
	busy := map[string]bool{}
	for i, tr := range b.Txs {
		in := c.IntentOfTx(b, i)
		if in == nil || tr.Code != 0 {
			continue
		}
		for _, m := range in.Msgs {
			if stakeKinds[m.K] && m.K != "propose_dispute" && m.K != "add_fee" {
				busy[string(c.Accounts.Addr(in.Actor))] = true
			}
			if (m.K == "propose_dispute" || m.K == "add_fee") && m.B {
				busy["*frombond*"] = true
			}
			// a refund or reward put back into stake changes somebody's holdings (the payer named in the message, its
			// selectors): anybody may send these on another's behalf
			if m.K == "withdraw_fee_refund" || m.K == "claim_reward" || m.K == "withdraw_tip" {
				busy["*frombond*"] = true
			}
		}
	}
	executedNow := false
	for _, e := range b.Res.Events {
		if e.Type == "dispute_executed" {
			executedNow = true
		}
	}
	// several disputes funded in one block take stake from the same backers: the per-dispute loss is then not
	// observable at block granularity (the per-backer record check still applies)
	fundedNow := 0
	for _, id := range o.t.ids() {
		if o.t.fundedAt[id] == b.H {
			fundedNow++
		}
	}
	if fundedNow > 1 {
		busy["*frombond*"] = true
		o.count("blocks_with_several_fundings(loss check skipped)")
	}

	for _, id := range o.t.ids() {
		d := o.t.cur[id]
		p, had := o.t.prev[id]
		// ---- expiry of unfunded disputes
		if had && p.D.DisputeStatus == disputetypes.Prevote && d.D.DisputeStatus == disputetypes.Prevote && b.Time.After(p.D.DisputeEndTime.Add(time.Millisecond)) {
			out = append(out, o.v(b.H, "expiry", "unfunded-not-failed", "dispute %d was not funded by %s and is still in prevote at %s", id, p.D.DisputeEndTime, b.Time))
		}
		if had && p.D.DisputeStatus == disputetypes.Prevote && d.D.DisputeStatus == disputetypes.Failed {
			o.count("expired_unfunded")
			if b.Time.Before(p.D.DisputeEndTime) {
				out = append(out, o.v(b.H, "expiry", "failed-before-deadline", "dispute %d failed at %s, its fee deadline is %s", id, b.Time, p.D.DisputeEndTime))
			}
			if has, _ := b.Ref.App.ReporterKeeper.DisputedDelegationAmounts.Has(v.ctx, d.D.HashId); has {
				out = append(out, o.v(b.H, "expiry", "failed-dispute-has-escrow", "dispute %d expired unfunded but stake is escrowed for it", id))
			}
		}
		// ---- funding step: first time the dispute is seen beyond prevote (round 1 only)
		if o.t.fundedAt[id] != b.H || d.D.DisputeRound != 1 {
			continue
		}
		if had && p.D.DisputeStatus != disputetypes.Prevote {
			continue
		}
		o.count("fundings_checked")
		ev := d.D.InitialEvidence
		reporter, err := sdk.AccAddressFromBech32(ev.Reporter)
		if err != nil {
			continue
		}
		pct := map[disputetypes.DisputeCategory]int64{disputetypes.Warning: 1, disputetypes.Minor: 5, disputetypes.Major: 100}[d.D.DisputeCategory]
		// (a) the report was really submitted with that value and power
		real := false
		for _, r := range v.Reports() {
			if eqBytes(r.QueryID, ev.QueryId) && string(r.Reporter) == string(reporter) && r.Rep.BlockNumber == ev.BlockNumber && r.Rep.Value == ev.Value && r.Rep.Power == ev.Power {
				real = true
			}
		}
		if !real {
			out = append(out, o.v(b.H, "funding", "dispute-on-report-never-submitted", "dispute %d was accepted and funded for a report by %s (query %x, height %d, power %d) that is not in the oracle store with that value and power", id, ev.Reporter, ev.QueryId[:4], ev.BlockNumber, ev.Power))
			continue
		}
		snap, err := b.Ref.App.ReporterKeeper.Report.Get(v.ctx, collJoinReport(ev.QueryId, reporter, ev.BlockNumber))
		if err != nil {
			continue
		}
		rec, err := b.Ref.App.ReporterKeeper.DisputedDelegationAmounts.Get(v.ctx, d.D.HashId)
		if err != nil {
			out = append(out, o.v(b.H, "funding", "funded-without-escrow-record", "dispute %d is funded but no per-backer record of the stake taken exists", id))
			continue
		}
		// (b) total taken: pct of power*1e6 or of the snapshot total (both readings accepted)
		t1 := new(big.Int).Div(new(big.Int).Mul(new(big.Int).Mul(new(big.Int).SetUint64(ev.Power), big.NewInt(1_000_000)), big.NewInt(pct)), big.NewInt(100))
		t2 := new(big.Int).Div(new(big.Int).Mul(snap.Total.BigInt(), big.NewInt(pct)), big.NewInt(100))
		T := rec.Total.BigInt()
		near := func(a, b *big.Int) bool { return new(big.Int).Abs(new(big.Int).Sub(a, b)).Cmp(big.NewInt(1)) <= 0 }
		if !near(T, t1) && !near(T, t2) {
			out = append(out, o.v(b.H, "funding", "wrong-total-taken", "dispute %d (%s): %s recorded as taken, expected %d%% of the report's stake = %s (or %s of the snapshot total)", id, d.D.DisputeCategory, T, pct, t1, t2))
		}
		// (c) per backer: proportional to its contribution at report time
		contrib := map[string]*big.Int{}
		sum := new(big.Int)
		for _, to := range snap.TokenOrigins {
			k := string(to.DelegatorAddress)
			if contrib[k] == nil {
				contrib[k] = new(big.Int)
			}
			contrib[k].Add(contrib[k], to.Amount.BigInt())
			sum.Add(sum, to.Amount.BigInt())
		}
		taken := map[string]*big.Int{}
		for _, to := range rec.TokenOrigins {
			k := string(to.DelegatorAddress)
			if taken[k] == nil {
				taken[k] = new(big.Int)
			}
			taken[k].Add(taken[k], to.Amount.BigInt())
		}
		// the per-backer entries add up to the recorded total (whatever else is wrong with the shares)
		sumTaken := new(big.Int)
		for _, x := range taken {
			sumTaken.Add(sumTaken, x)
		}
		if new(big.Int).Abs(new(big.Int).Sub(sumTaken, T)).Cmp(big.NewInt(int64(len(rec.TokenOrigins)+1))) > 0 {
			out = append(out, o.v(b.H, "funding", "backer-records-ne-total", "dispute %d: the per-backer entries of the stake taken add up to %s, the recorded total is %s", id, sumTaken, T))
			continue
		}
		var ks []string
		for k := range contrib {
			ks = append(ks, k)
		}
		sort.Strings(ks)
		slack := big.NewInt(int64(len(snap.TokenOrigins) + 1))
		for _, k := range ks {
			if sum.Sign() == 0 {
				break
			}
			want := new(big.Int).Div(new(big.Int).Mul(T, contrib[k]), sum)
			got := taken[k]
			if got == nil {
				got = new(big.Int)
			}
			if new(big.Int).Abs(new(big.Int).Sub(want, got)).Cmp(slack) > 0 {
				cls := "backer-share-not-proportional"
				// diagnosis: the share was computed against power x 10^6 instead of the recorded stake total
				byPower := new(big.Int).Mul(new(big.Int).SetUint64(ev.Power), big.NewInt(1_000_000))
				if byPower.Sign() > 0 {
					alt := new(big.Int).Div(new(big.Int).Mul(T, contrib[k]), byPower)
					if new(big.Int).Abs(new(big.Int).Sub(alt, got)).Cmp(slack) <= 0 {
						cls += ":divided-by-power-not-by-recorded-stake"
					} else if k == ks[len(ks)-1] || string(snap.TokenOrigins[len(snap.TokenOrigins)-1].DelegatorAddress) == k {
						cls += ":leftover-on-last-backer"
					}
				}
				out = append(out, o.v(b.H, "funding", cls, "dispute %d: backer %s contributed %s of %s at report time; %s of the %s taken is recorded against it, proportional share is %s", id, sdk.AccAddress([]byte(k)), contrib[k], sum, got, T, want))
				break
			}
			// the backer's stake really went down by what is recorded (when nothing else touched it in this block)
			if !busy[k] && !busy["*frombond*"] && !executedNow && o.prevBack[k] != nil && curBack[k] != nil {
				loss := new(big.Int).Sub(o.prevBack[k], curBack[k])
				if new(big.Int).Abs(new(big.Int).Sub(loss, got)).Cmp(slack) > 0 {
					cls := "backer-loss-ne-record"
					if sameReportDisputedAgain(v) {
						cls += ":report-already-slashed-by-earlier-dispute"
					} else if backerMovedStake(c, v) {
						cls += ":backer-moved-stake-since-report"
					}
					out = append(out, o.v(b.H, "funding", cls, "dispute %d: backer %s lost %s of stake in block %d but %s is recorded as taken from it", id, sdk.AccAddress([]byte(k)), loss, b.H, got))
					break
				}
				o.count("backer_losses_checked")
			}
		}
		// (d) jail
		if rp, err := b.Ref.App.ReporterKeeper.Reporters.Get(v.ctx, reporter); err == nil {
			switch d.D.DisputeCategory {
			case disputetypes.Warning:
				if !rp.Jailed || rp.JailedUntil.After(b.Time) {
					out = append(out, o.v(b.H, "funding", "jail-warning", "warning dispute %d: reporter jailed=%v until %s (block time %s); release must be possible at once", id, rp.Jailed, rp.JailedUntil, b.Time))
				}
			case disputetypes.Minor:
				if !rp.Jailed || !rp.JailedUntil.Equal(b.Time.Add(600*time.Second)) {
					// an earlier still-running jail of the same reporter makes JailReporter fail the whole funding tx, so this state is exact
					out = append(out, o.v(b.H, "funding", "jail-minor", "minor dispute %d: reporter jailed=%v until %s, expected block time + 10 minutes = %s", id, rp.Jailed, rp.JailedUntil, b.Time.Add(600*time.Second)))
				}
			}
		}
		// (e) the aggregate that the report determined is flagged
		for _, a := range v.Aggregates() {
			if !eqBytes(a.QueryID, ev.QueryId) || a.Agg.MicroHeight != ev.BlockNumber {
				continue
			}
			if a.Agg.Height >= uint64(b.H) {
				continue // created at or after the funding step: nothing to flag at that moment
			}
			if rep, _, ok := determining(a); ok && rep == ev.Reporter && !a.Agg.Flagged {
				out = append(out, o.v(b.H, "funding", "aggregate-not-flagged", "dispute %d funded but the aggregate its report determined (query %x at %d) is not flagged", id, a.QueryID[:4], a.TsMs))
			}
		}
	}
	return out
}

func (o *OracleC11) End(c *Chain) []*Violation { return nil }

// ======================================================================================= C12

// OracleC12 — dispute lifecycle, voting power and tally follow the specified rules.
type OracleC12 struct {
	counters
	t         *DisputeTracker
	prevVoter map[string]disputetypes.Voter
	teamAt    map[uint64]string // dispute id -> team address when the dispute was first seen
	voterRep  map[string]string // "<dispute>|<voter>" -> the reporter the voter had selected at the end of the block it voted in
	prevTeam  string            // team address at the end of the previous block
}

func NewOracleC12(t *DisputeTracker) *OracleC12 {
	return &OracleC12{counters: newCounters(), t: t, prevVoter: map[string]disputetypes.Voter{}, teamAt: map[uint64]string{}, voterRep: map[string]string{}}
}

// teamRotatedOntoVoter: the input-level condition of the open finding "team-address-changed-after-its-vote" — the
// address that is the team now has a voter record on this dispute although it was not the team when the dispute
// began (or no team-weight vote was counted): its ordinary vote is then read as the team's vote by the tally.
func (o *OracleC12) teamRotatedOntoVoter(b *BlockCtx, v *View, d DisputeInfo, cnt disputetypes.StakeholderVoteCounts) bool {
	has, err := b.Ref.App.DisputeKeeper.Voter.Has(v.ctx, collections.Join(d.D.DisputeId, []byte(v.TeamAddr())))
	if err != nil {
		return false
	}
	teamVotes := cnt.Team.Support + cnt.Team.Against + cnt.Team.Invalid
	if has && teamVotes == 0 {
		return true // the present team voted as an ordinary account
	}
	// the team address changed while the dispute was running: either the present team's ordinary vote is read as the
	// team's, or the vote the team did cast (team counter set) is no longer found under the present address
	first, ok := o.teamAt[d.D.DisputeId]
	return ok && first != string(v.TeamAddr()) && (has || teamVotes > 0)
}
func (o *OracleC12) ID() string { return "C12" }

func (o *OracleC12) v(h int64, oracle, site, class, f string, a ...any) *Violation {
	return &Violation{Property: "C12", Oracle: oracle, Site: site, Class: class, Height: h, Msg: fmt.Sprintf(f, a...)}
}

var statusRank = map[disputetypes.DisputeStatus]int{disputetypes.Prevote: 0, disputetypes.Voting: 1, disputetypes.Unresolved: 2, disputetypes.Resolved: 3, disputetypes.Failed: 9}

func (o *OracleC12) AfterBlock(c *Chain, b *BlockCtx) []*Violation {
	o.t.update(c, b)
	var out []*Violation
	v := c.ViewOf(b.Ref)
	// ---- lifecycle
	for _, id := range o.t.ids() {
		d := o.t.cur[id]
		p, had := o.t.prev[id]
		if _, seen := o.teamAt[id]; !seen {
			o.teamAt[id] = string(v.TeamAddr())
		}
		if !had {
			if d.D.DisputeStatus != disputetypes.Prevote && d.D.DisputeStatus != disputetypes.Voting && !(d.D.DisputeStatus == disputetypes.Resolved || d.D.DisputeStatus == disputetypes.Unresolved) {
				out = append(out, o.v(b.H, "lifecycle", "Disputes", "bad-initial-status", "dispute %d appears with status %s", id, d.D.DisputeStatus))
			}
			if d.D.DisputeRound > 1 {
				o.count("new_rounds")
				// fee of the new round doubles: round r costs 5% x 2^(r-1) of the slash amount, capped at it
				if len(d.D.PrevDisputeIds) >= 2 {
					prevID := d.D.PrevDisputeIds[len(d.D.PrevDisputeIds)-2]
					if pp, ok := o.t.prev[prevID]; ok {
						paid := new(big.Int).Sub(d.D.FeeTotal.BigInt(), pp.D.FeeTotal.BigInt())
						base := new(big.Int).Div(d.D.SlashAmount.BigInt(), big.NewInt(20))
						want := new(big.Int).Mul(base, new(big.Int).Lsh(big.NewInt(1), uint(d.D.DisputeRound-1)))
						if want.Cmp(d.D.SlashAmount.BigInt()) > 0 {
							want = d.D.SlashAmount.BigInt()
						}
						if paid.Cmp(want) != 0 {
							out = append(out, o.v(b.H, "lifecycle", "AddDisputeRound", "round-fee", "round %d of dispute %d cost %s, expected %s (5%% of the stake doubled per round, capped)", d.D.DisputeRound, id, paid, want))
						}
						// (the predecessor may have been tallied to unresolved in this block's BeginBlock)
						if pp.D.DisputeStatus == disputetypes.Resolved || pp.D.DisputeStatus == disputetypes.Failed || pp.D.DisputeStatus == disputetypes.Prevote {
							out = append(out, o.v(b.H, "lifecycle", "AddDisputeRound", "round-from-wrong-status", "a new round of dispute %d started from status %s", id, pp.D.DisputeStatus))
						}
					}
				}
			}
			continue
		}
		pr, cr := statusRank[p.D.DisputeStatus], statusRank[d.D.DisputeStatus]
		if cr < pr || (p.D.DisputeStatus == disputetypes.Failed && d.D.DisputeStatus != disputetypes.Failed) || (d.D.DisputeStatus == disputetypes.Failed && p.D.DisputeStatus != disputetypes.Prevote && p.D.DisputeStatus != disputetypes.Failed) {
			out = append(out, o.v(b.H, "lifecycle", "Disputes", "backward-transition", "dispute %d moved %s -> %s", id, p.D.DisputeStatus, d.D.DisputeStatus))
		}
		if p.D.DisputeStatus != d.D.DisputeStatus {
			o.count("transitions_" + p.D.DisputeStatus.String() + "->" + d.D.DisputeStatus.String())
		}
		if p.V != nil && d.V != nil && p.V.VoteResult != disputetypes.VoteResult_NO_TALLY && d.V.VoteResult != p.V.VoteResult {
			out = append(out, o.v(b.H, "lifecycle", "Votes", "result-changed", "dispute %d: recorded result changed from %s to %s", id, p.V.VoteResult, d.V.VoteResult))
		}
		// a round that has been superseded by a new round (which existed already at the end of the previous block) is
		// history: unresolved -> new round is the only way on, it is never resolved or executed on its own
		superseded := false
		for _, id2 := range o.t.ids() {
			if id2 > id && o.t.rootOf[id2] == o.t.rootOf[id] {
				if _, existed := o.t.prev[id2]; existed {
					superseded = true
				}
			}
		}
		if superseded {
			o.count("superseded_rounds_watched")
			pe, ce := p.V != nil && p.V.Executed, d.V != nil && d.V.Executed
			if p.D.DisputeStatus != d.D.DisputeStatus || pe != ce {
				out = append(out, o.v(b.H, "lifecycle", "Disputes", "superseded-round-moved", "dispute %d has been superseded by a later round, yet it moved %s -> %s (executed %v -> %v) in block %d", id, p.D.DisputeStatus, d.D.DisputeStatus, pe, ce, b.H))
			}
		}
	}
	// ---- votes cast in this block
	curVoter := map[string]disputetypes.Voter{}
	for _, vr := range v.Voters() {
		curVoter[fmt.Sprintf("%d|%s", vr.ID, string(vr.Voter))] = vr.Rec
	}
	defer func() { o.prevVoter = curVoter }()
	defer func() { o.prevTeam = string(v.TeamAddr()) }()
	for _, vr := range v.Voters() {
		k := fmt.Sprintf("%d|%s", vr.ID, string(vr.Voter))
		if _, seen := o.voterRep[k]; !seen {
			rep := ""
			if sel, err := b.Ref.App.ReporterKeeper.Selectors.Get(v.ctx, vr.Voter); err == nil {
				rep = string(sel.Reporter)
			}
			o.voterRep[k] = rep
		}
	}
	team := v.TeamAddr()
	for i, tr := range b.Txs {
		in := c.IntentOfTx(b, i)
		if in == nil || tr.Code != 0 {
			continue
		}
		for mi := range in.Msgs {
			m := &in.Msgs[mi]
			if m.K != "vote" {
				continue
			}
			who := in.Actor
			if m.As != nil {
				who = *m.As
			}
			addr := c.Accounts.Addr(who)
			key := fmt.Sprintf("%d|%s", m.U, string(addr))
			o.count("accepted_votes_checked")
			if _, dup := o.prevVoter[key]; dup {
				out = append(out, o.v(b.H, "voting", "MsgVote", "second-vote-accepted", "%s voted twice on dispute %d", addr, m.U))
				continue
			}
			p, ok := o.t.prev[m.U]
			if !ok {
				if cd, ok2 := o.t.cur[m.U]; ok2 {
					p = cd // dispute funded earlier in this very block
				} else {
					continue
				}
			}
			if p.V != nil && b.Time.After(p.V.VoteEnd.Add(time.Millisecond)) && p.V.VoteResult == disputetypes.VoteResult_NO_TALLY {
				out = append(out, o.v(b.H, "voting", "MsgVote", "vote-after-end", "vote by %s on dispute %d accepted at %s, voting ended %s", addr, m.U, b.Time, p.V.VoteEnd))
			}
			rec, ok := curVoter[key]
			if !ok {
				continue
			}
			// weights: tips and reporting stake as of the dispute's block, balance now, fixed team weight
			d := o.t.cur[m.U]
			wantTips := o.t.tipsAt(string(addr), d.D.BlockNumber)
			// the team address may change inside the block (before or after this vote): the voter was the team when it
			// voted if it is the team at the end of this block or was at the end of the previous one; when the two
			// differ both readings are accepted
			wantTeam := new(big.Int)
			isNow, wasBefore := string(addr) == string(team), o.prevTeam != "" && string(addr) == o.prevTeam
			if isNow || wasBefore {
				wantTeam = big.NewInt(25_000_000)
			}
			teamAmbiguous := isNow != wasBefore && o.prevTeam != ""
			selTokens := new(big.Int)
			if st, err := b.Ref.App.ReporterKeeper.GetDelegatorTokensAtBlock(v.ctx, addr, d.D.BlockNumber); err == nil && !st.IsNil() {
				selTokens = st.BigInt()
			}
			// token weight = liquid balance (at vote time) + recorded stake; the balance is only known at block end,
			// so it is compared when this was the voter's only transaction of the block
			if rec.TokenholderPower.BigInt().Cmp(selTokens) < 0 {
				out = append(out, o.v(b.H, "voting", "Voter", "token-weight-below-stake", "voter %s on dispute %d: token weight %s is below its recorded stake %s", addr, m.U, rec.TokenholderPower, selTokens))
			}
			sumParts := new(big.Int).Add(new(big.Int).Add(wantTeam, wantTips), new(big.Int).Add(rec.ReporterPower.BigInt(), rec.TokenholderPower.BigInt()))
			// ReporterPower of a reporter may have been reduced later in this block by a selector's vote; compare only when equal blocks are simple
			if teamAmbiguous && rec.VoterPower.BigInt().Cmp(new(big.Int).Sub(sumParts, wantTeam)) == 0 {
				sumParts.Sub(sumParts, wantTeam) // it voted while it was not (yet / any more) the team
			}
			if rec.VoterPower.BigInt().Cmp(sumParts) != 0 && !o.laterSelectorVote(c, b, i, addr) {
				out = append(out, o.v(b.H, "voting", "Voter", "voter-power-ne-parts", "voter %s on dispute %d: recorded power %s, parts: team %s + tips-at-dispute-block %s + reporting stake %s + token weight %s", addr, m.U, rec.VoterPower, wantTeam, wantTips, rec.ReporterPower, rec.TokenholderPower))
			}
		}
	}
	// ---- group counters = sum of the individual voter records; no counter wrapped
	byDispute := map[uint64][]VoterRec{}
	for _, vr := range v.Voters() {
		byDispute[vr.ID] = append(byDispute[vr.ID], vr)
	}
	for _, id := range o.t.ids() {
		d := o.t.cur[id]
		cnt, err := b.Ref.App.DisputeKeeper.VoteCountsByGroup.Get(v.ctx, id)
		if err != nil {
			continue
		}
		o.count("counter_sets_checked")
		for gi, g := range []disputetypes.VoteCounts{cnt.Users, cnt.Reporters, cnt.Tokenholders, cnt.Team} {
			name := []string{"users", "reporters", "tokenholders", "team"}[gi]
			for _, x := range []uint64{g.Support, g.Against, g.Invalid} {
				if x > 1<<62 {
					out = append(out, o.v(b.H, "counters", "VoteCountsByGroup", "counter-wrapped", "dispute %d: %s counter holds %d (an unsigned counter went below zero)", id, name, x))
				}
			}
		}
		var sumRep, sumTok [3]*big.Int
		for i := range sumRep {
			sumRep[i], sumTok[i] = new(big.Int), new(big.Int)
		}
		idx := map[disputetypes.VoteEnum]int{disputetypes.VoteEnum_VOTE_SUPPORT: 0, disputetypes.VoteEnum_VOTE_AGAINST: 1, disputetypes.VoteEnum_VOTE_INVALID: 2}
		for _, vr := range byDispute[id] {
			k, ok := idx[vr.Rec.Vote]
			if !ok {
				k = 2
			}
			sumRep[k].Add(sumRep[k], vr.Rec.ReporterPower.BigInt())
			sumTok[k].Add(sumTok[k], vr.Rec.TokenholderPower.BigInt())
		}
		got := [3]uint64{cnt.Reporters.Support, cnt.Reporters.Against, cnt.Reporters.Invalid}
		gotT := [3]uint64{cnt.Tokenholders.Support, cnt.Tokenholders.Against, cnt.Tokenholders.Invalid}
		for k := 0; k < 3; k++ {
			if new(big.Int).SetUint64(got[k]).Cmp(sumRep[k]) != 0 && got[k] <= 1<<62 {
				out = append(out, o.v(b.H, "counters", "VoteCountsByGroup", "reporter-counter-ne-voters", "dispute %d: reporters counter [%d] = %d, individual voter records sum to %s (reporting stake counted twice or lost)", id, k, got[k], sumRep[k]))
				break
			}
			if new(big.Int).SetUint64(gotT[k]).Cmp(sumTok[k]) != 0 && gotT[k] <= 1<<62 {
				out = append(out, o.v(b.H, "counters", "VoteCountsByGroup", "tokenholder-counter-ne-voters", "dispute %d: token-holder counter [%d] = %d, voter records sum to %s", id, k, gotT[k], sumTok[k]))
				break
			}
		}
		// ---- no reporting stake counts twice: the reporting weight cast by a reporter and its selectors together
		// never exceeds the stake recorded for that reporter as of the dispute's block
		byRep := map[string]*big.Int{}
		for _, vr := range byDispute[id] {
			// grouped by the reporter the voter had selected when it voted (its selection may have been removed and
			// re-made with another reporter since)
			k := o.voterRep[fmt.Sprintf("%d|%s", vr.ID, string(vr.Voter))]
			if k == "" {
				continue
			}
			if sel, err := b.Ref.App.ReporterKeeper.Selectors.Get(v.ctx, vr.Voter); err != nil || string(sel.Reporter) != k {
				o.count("voters_whose_selection_changed_since_voting(skipped)")
				continue
			}
			if byRep[k] == nil {
				byRep[k] = new(big.Int)
			}
			byRep[k].Add(byRep[k], vr.Rec.ReporterPower.BigInt())
		}
		for rep, cast := range byRep {
			tot, err := b.Ref.App.ReporterKeeper.GetReporterTokensAtBlock(v.ctx, []byte(rep), d.D.BlockNumber)
			if err != nil || tot.IsNil() {
				continue
			}
			if tot.IsZero() {
				// the reporter had no recorded stake at the dispute's block (it did not exist yet, or its voters joined it
				// later): the voters' weights stem from another reporter's stake and cannot be compared with this one
				o.count("reporter_groups_without_stake_at_dispute_block(skipped)")
				continue
			}
			o.count("reporter_groups_checked")
			if cast.Cmp(tot.BigInt()) > 0 && !o.switchedSelector(v, byDispute[id], rep) {
				out = append(out, o.v(b.H, "counters", "Voter.ReporterPower", "reporting-stake-counted-twice", "dispute %d: reporter %s and its selectors voted with %s of reporting weight, the stake recorded for that reporter at the dispute block is %s", id, sdk.AccAddress([]byte(rep)), cast, tot))
			}
		}
		// ---- tally: when a result is recorded in this block, recompute it from the statement
		p, had := o.t.prev[id]
		if d.V == nil || d.V.VoteResult == disputetypes.VoteResult_NO_TALLY || (had && p.V != nil && p.V.VoteResult != disputetypes.VoteResult_NO_TALLY) {
			continue
		}
		out = append(out, o.checkTally(c, b, v, d, cnt, len(byDispute[id]))...)
	}
	return out
}

func (o *OracleC12) laterSelectorVote(c *Chain, b *BlockCtx, after int, reporter sdk.AccAddress) bool {
	for i := after + 1; i < len(b.Txs); i++ {
		in := c.IntentOfTx(b, i)
		if in == nil || b.Txs[i].Code != 0 {
			continue
		}
		for _, m := range in.Msgs {
			if m.K == "vote" {
				return true
			}
		}
	}
	return false
}

// checkTally: exact-rational reference of the specified formula.
func (o *OracleC12) checkTally(c *Chain, b *BlockCtx, v *View, d DisputeInfo, cnt disputetypes.StakeholderVoteCounts, nVoters int) []*Violation {
	var out []*Violation
	o.count("tallies_checked")
	info, err := b.Ref.App.DisputeKeeper.BlockInfo.Get(v.ctx, d.D.HashId)
	totalTips, totalRep := o.t.totalTipsAt(d.D.BlockNumber), new(big.Int)
	if err == nil {
		totalRep = info.TotalReporterPower.BigInt()
	} else {
		// the snapshot is deleted at execution; when tally and execution share the block the totals are unknown
		return nil
	}
	supply := v.Supply().BigInt()
	type grp struct {
		s, a, i *big.Int
		total   *big.Int
	}
	u := func(x uint64) *big.Int { return new(big.Int).SetUint64(x) }
	groups := []grp{
		{u(cnt.Users.Support), u(cnt.Users.Against), u(cnt.Users.Invalid), totalTips},
		{u(cnt.Reporters.Support), u(cnt.Reporters.Against), u(cnt.Reporters.Invalid), totalRep},
		{u(cnt.Tokenholders.Support), u(cnt.Tokenholders.Against), u(cnt.Tokenholders.Invalid), supply},
		{u(cnt.Team.Support), u(cnt.Team.Against), u(cnt.Team.Invalid), big.NewInt(1)},
	}
	sumS, sumA, sumI, part := new(big.Rat), new(big.Rat), new(big.Rat), new(big.Rat)
	for _, g := range groups {
		cast := new(big.Int).Add(new(big.Int).Add(g.s, g.a), g.i)
		if cast.Sign() == 0 {
			continue
		}
		sumS.Add(sumS, new(big.Rat).SetFrac(g.s, cast))
		sumA.Add(sumA, new(big.Rat).SetFrac(g.a, cast))
		sumI.Add(sumI, new(big.Rat).SetFrac(g.i, cast))
		if g.total.Sign() > 0 {
			p := new(big.Rat).SetFrac(cast, g.total)
			if p.Cmp(big.NewRat(1, 1)) > 0 {
				p = big.NewRat(1, 1)
			}
			part.Add(part, new(big.Rat).Mul(p, big.NewRat(25, 100)))
		}
	}
	quorum := part.Cmp(big.NewRat(51, 100)) >= 0
	greyQ := absRat(new(big.Rat).Sub(part, big.NewRat(51, 100))).Cmp(big.NewRat(1, 1_000_000)) < 0
	// "as of the dispute's block" is ambiguous for tips that land in that block after the dispute transaction:
	// the chain's own mid-block snapshot of the tip total is accepted as well
	if info.TotalUserTips.BigInt().Cmp(totalTips) != 0 {
		part2 := new(big.Rat)
		for gi, g := range groups {
			cast := new(big.Int).Add(new(big.Int).Add(g.s, g.a), g.i)
			tot := g.total
			if gi == 0 {
				tot = info.TotalUserTips.BigInt()
			}
			if cast.Sign() == 0 || tot.Sign() <= 0 {
				continue
			}
			p := new(big.Rat).SetFrac(cast, tot)
			if p.Cmp(big.NewRat(1, 1)) > 0 {
				p = big.NewRat(1, 1)
			}
			part2.Add(part2, new(big.Rat).Mul(p, big.NewRat(25, 100)))
		}
		if (part2.Cmp(big.NewRat(51, 100)) >= 0) != quorum {
			greyQ = true
			o.count("quorum_grey_by_tip_total_snapshot")
		}
	}
	res := d.V.VoteResult
	isQuorumRes := res == disputetypes.VoteResult_SUPPORT || res == disputetypes.VoteResult_AGAINST || res == disputetypes.VoteResult_INVALID
	if nVoters == 0 {
		if res != disputetypes.VoteResult_NO_QUORUM_MAJORITY_INVALID {
			out = append(out, o.v(b.H, "tally", "TallyVote", "no-voters-result", "dispute %d had no voters, result recorded as %s", d.D.DisputeId, res))
		}
		return out
	}
	if !greyQ && quorum != isQuorumRes {
		cls := "quorum-label"
		// diagnosis: the address that is the team NOW voted on this dispute as an ordinary account before it became the team
		if o.teamRotatedOntoVoter(b, v, d, cnt) {
			cls += ":team-address-changed-after-its-vote"
		}
		out = append(out, o.v(b.H, "tally", "TallyVote", cls, "dispute %d: participation sum is %s (quorum at 0.51 => %v) but the result is labelled %s (counters users %v of %s, reporters %v of %s, holders %v of %s, team %v)", d.D.DisputeId, part.FloatString(6), quorum, res, cnt.Users, totalTips, cnt.Reporters, totalRep, cnt.Tokenholders, supply, cnt.Team))
	}
	if !isQuorumRes && b.Time.Before(d.V.VoteEnd) && b.Time.Before(o.voteEndBefore(d)) {
		out = append(out, o.v(b.H, "tally", "TallyVote", "no-quorum-before-period-end", "dispute %d resolved without quorum before its voting period ended", d.D.DisputeId))
	}
	// arg max with the 4e-6 grey zone; exact ties: any tied choice
	type ch struct {
		name string
		v    *big.Rat
	}
	cs := []ch{{"support", sumS}, {"against", sumA}, {"invalid", sumI}}
	sort.SliceStable(cs, func(i, j int) bool { return cs[i].v.Cmp(cs[j].v) > 0 })
	got := map[disputetypes.VoteResult]string{disputetypes.VoteResult_SUPPORT: "support", disputetypes.VoteResult_NO_QUORUM_MAJORITY_SUPPORT: "support",
		disputetypes.VoteResult_AGAINST: "against", disputetypes.VoteResult_NO_QUORUM_MAJORITY_AGAINST: "against",
		disputetypes.VoteResult_INVALID: "invalid", disputetypes.VoteResult_NO_QUORUM_MAJORITY_INVALID: "invalid"}[res]
	grey := big.NewRat(4, 1_000_000)
	ok := false
	for _, x := range cs {
		if new(big.Rat).Sub(cs[0].v, x.v).Cmp(grey) <= 0 && x.name == got {
			ok = true
		}
	}
	if new(big.Rat).Sub(cs[0].v, cs[1].v).Cmp(grey) <= 0 {
		o.count("tallies_with_tied_top_choices")
		if got == "invalid" {
			ok = true // a tie settled as invalid is an admissible fixed rule
		}
	}
	if !ok {
		cls := "wrong-majority"
		if o.teamRotatedOntoVoter(b, v, d, cnt) {
			cls = "wrong-majority:team-address-changed-after-its-vote"
		}
		if isQuorumRes && cls == "wrong-majority" {
			cls = "wrong-majority-with-quorum"
			// diagnosis: does the recorded result follow from the fractions of team, users and reporters alone?
			s3, a3, i3 := new(big.Rat), new(big.Rat), new(big.Rat)
			for gi, g := range groups {
				if gi == 2 {
					continue
				}
				cast := new(big.Int).Add(new(big.Int).Add(g.s, g.a), g.i)
				if cast.Sign() == 0 {
					continue
				}
				s3.Add(s3, new(big.Rat).SetFrac(g.s, cast))
				a3.Add(a3, new(big.Rat).SetFrac(g.a, cast))
				i3.Add(i3, new(big.Rat).SetFrac(g.i, cast))
			}
			w := "invalid"
			if s3.Cmp(a3) > 0 && s3.Cmp(i3) > 0 {
				w = "support"
			} else if a3.Cmp(s3) > 0 && a3.Cmp(i3) > 0 {
				w = "against"
			}
			// the chain works with six decimals: leaders closer than that are a tie for it (settled as invalid)
			type c3 struct {
				n string
				v *big.Rat
			}
			l3 := []c3{{"support", s3}, {"against", a3}, {"invalid", i3}}
			sort.SliceStable(l3, func(i, j int) bool { return l3[i].v.Cmp(l3[j].v) > 0 })
			nearTie := new(big.Rat).Sub(l3[0].v, l3[1].v).Cmp(big.NewRat(4, 1_000_000)) <= 0
			if w == got || (nearTie && (got == "invalid" || got == l3[0].n || got == l3[1].n)) {
				cls += ":token-holders-left-out-after-early-quorum"
			}
		}
		out = append(out, o.v(b.H, "tally", "TallyVote", cls, "dispute %d: group fractions sum to support %s / against %s / invalid %s, recorded result %s (counters users %v reporters %v holders %v team %v; participation %s)", d.D.DisputeId, sumS.FloatString(6), sumA.FloatString(6), sumI.FloatString(6), res, cnt.Users, cnt.Reporters, cnt.Tokenholders, cnt.Team, part.FloatString(6)))
	}
	return out
}

// voteEndBefore: the voting period end as it was scheduled (VoteEnd is overwritten with the tally time).
func (o *OracleC12) voteEndBefore(d DisputeInfo) time.Time {
	if p, ok := o.t.prev[d.D.DisputeId]; ok && p.V != nil {
		return p.V.VoteEnd
	}
	return d.V.VoteEnd
}

func (o *OracleC12) End(c *Chain) []*Violation { return nil }

var _ = collections.Join[int, int]
var _ = math.ZeroInt

// switchedSelector: a voter that switched reporters after voting makes the grouping by current selection unreliable.
func (o *OracleC12) switchedSelector(v *View, voters []VoterRec, rep string) bool {
	for _, vr := range voters {
		sel, err := v.n.App.ReporterKeeper.Selectors.Get(v.ctx, vr.Voter)
		if err == nil && string(sel.Reporter) == rep && !sel.LockedUntilTime.IsZero() {
			return true
		}
	}
	return false
}
