package sim

import (
	"fmt"
	"regexp"
	"strings"

	abci "github.com/cometbft/cometbft/abci/types"
	cryptoenc "github.com/cometbft/cometbft/crypto/encoding"
	"github.com/spf13/viper"
	"github.com/tellor-io/layer/app"

	"github.com/cosmos/cosmos-sdk/crypto/keyring"
)

func pubKeyAddr(vu abci.ValidatorUpdate) []byte {
	pk, err := cryptoenc.PubKeyFromProto(vu.PubKey)
	if err != nil {
		return nil
	}
	return pk.Address()
}

// breakKeyring makes the node's next ExtendVote find no usable key (F11); returns the undo.
func (n *Node) breakKeyring() func() {
	if n.chain.Cfg.KeyringShipped {
		viper.Set("key-name", "no-such-key")
		return func() { viper.Set("key-name", keyName) }
	}
	app.VerifSetVoteExtKeyring(n.App, keyring.NewInMemory(n.chain.cdcApp.AppCodec()))
	return func() {
		if n.App != nil {
			app.VerifSetVoteExtKeyring(n.App, n.kr)
		}
	}
}

var (
	reHex   = regexp.MustCompile(`[0-9a-fA-F]{16,}`)
	reAddr  = regexp.MustCompile(`tellor[a-z0-9]{20,}`)
	reNum   = regexp.MustCompile(`[0-9]+`)
	reSpace = regexp.MustCompile(`\s+`)
)

// errClass abstracts an error text into a class that is stable across runs (no addresses, numbers, hashes).
func errClass(s string) string {
	s = reAddr.ReplaceAllString(s, "<addr>")
	s = reHex.ReplaceAllString(s, "<hex>")
	s = reNum.ReplaceAllString(s, "#")
	s = reSpace.ReplaceAllString(s, " ")
	if len(s) > 140 {
		s = s[:140]
	}
	return strings.TrimSpace(s)
}

// classifyHalt turns a FinalizeBlock error/panic into a C02 violation with a (module, error-class) signature.
func classifyHalt(h int64, n *Node, err error) *Violation {
	msg := err.Error()
	site := "FinalizeBlock"
	switch {
	case strings.Contains(msg, "PANIC"):
		site = "panic"
	}
	return &Violation{Property: "C02", Oracle: "no-halt", Site: site, Class: errClass(msg), Height: h,
		Msg: fmt.Sprintf("node %d: FinalizeBlock(height %d) failed: %s", n.Idx, h, truncate(msg, 600))}
}

func classifyPanic(s string) string { return errClass(s) }

func truncate(s string, n int) string {
	if len(s) > n {
		return s[:n] + "…"
	}
	return s
}
