package sim

import (
	"fmt"
	"math/big"
	"strings"
	"time"
)

// OracleC18 — staking transactions cannot move bonded stake more than 5 % per 12-hour period.
// ref.Ante: for a transaction that passed the admission checks, bonded + sum of its stake-adding messages
// <= 105 % of the baseline and bonded - sum of its undelegations >= 95 % of it (sums over the whole transaction).
type OracleC18 struct {
	counters
	prevBonded *big.Int
	prevBase   *big.Int
	prevExpMs  int64
	have       bool
}

func NewOracleC18() *OracleC18  { return &OracleC18{counters: newCounters()} }
func (o *OracleC18) ID() string { return "C18" }

func (o *OracleC18) v(h int64, site, class, f string, a ...any) *Violation {
	return &Violation{Property: "C18", Oracle: "stake-change-bound", Site: site, Class: class, Height: h, Msg: fmt.Sprintf(f, a...)}
}

var addKinds = map[string]bool{"delegate": true, "redelegate": true, "cancel_unbonding": true, "create_validator": true}

func (o *OracleC18) AfterBlock(c *Chain, b *BlockCtx) []*Violation {
	var out []*Violation
	v := c.ViewOf(b.Ref)
	bonded := v.BondedTotal().BigInt()
	base, expMs := v.TrackerAmount()
	defer func() { o.prevBonded, o.prevBase, o.prevExpMs, o.have = bonded, base.BigInt(), expMs, true }()
	if !o.have {
		return nil
	}
	// ---- baseline refresh only after its 12 hours have passed
	if base.BigInt().Cmp(o.prevBase) != 0 || expMs != o.prevExpMs {
		o.count("baseline_refreshes")
		if b.Time.UnixMilli() < o.prevExpMs {
			out = append(out, o.v(b.H, "tracker", "refreshed-before-expiry", "baseline changed from %s to %s at %s, the period runs until %s", o.prevBase, base, b.Time, time.UnixMilli(o.prevExpMs).UTC()))
		}
		if b.Time.UnixMilli() == o.prevExpMs {
			o.count("grey_refresh_exactly_at_expiry")
		}
		if want := b.Time.Add(12 * time.Hour).UnixMilli(); expMs != want {
			out = append(out, o.v(b.H, "tracker", "period-length", "new tracking period ends %s, expected block time + 12 h", time.UnixMilli(expMs).UTC()))
		}
	}
	// ---- admitted transactions
	beginTouched := false
	for _, e := range b.Res.Events {
		if e.Type == "dispute_executed" {
			beginTouched = true
		}
	}
	stakeSeen := false
	for i, tr := range b.Txs {
		in := c.IntentOfTx(b, i)
		if in == nil {
			continue
		}
		adds, subs := new(big.Int), new(big.Int)
		n := 0
		touches := false
		for mi := range in.Msgs {
			m := &in.Msgs[mi]
			if stakeKinds[m.K] {
				touches = true
			}
			amt := parseInt(m.N).BigInt()
			switch {
			case addKinds[m.K]:
				adds.Add(adds, amt)
				n++
			case m.K == "undelegate":
				subs.Add(subs, amt)
				n++
			}
		}
		rejectedHere := tr.Code != 0 && (strings.Contains(tr.Log, "exceeds the allowed 5% threshold"))
		if n > 0 && !stakeSeen && !beginTouched && o.prevBase.Sign() > 0 {
			admitted := tr.Code == 0
			if rejectedHere {
				o.count("rejected_by_the_decorator")
			}
			if admitted {
				o.count("admitted_staking_txs_checked")
				if n > 1 {
					o.count("admitted_multi_message_staking_txs")
				}
				five := new(big.Int).Div(o.prevBase, big.NewInt(20))
				upper := new(big.Int).Add(o.prevBase, five)
				lower := new(big.Int).Sub(o.prevBase, five)
				after := new(big.Int).Add(o.prevBonded, adds)
				// one unit of grey for the floor of 5 %
				if adds.Sign() > 0 && after.Cmp(new(big.Int).Add(upper, big.NewInt(1))) > 0 {
					cls := "increase-above-105pct"
					if n > 1 {
						cls += ":sum-over-several-messages"
					}
					out = append(out, o.v(b.H, "ante", cls, "tx %d (%s) was admitted: bonded %s + %s added = %s exceeds 105%% of the period baseline %s (= %s)", i, intentKinds(in), o.prevBonded, adds, after, o.prevBase, upper))
				}
				below := new(big.Int).Sub(o.prevBonded, subs)
				if subs.Sign() > 0 && below.Cmp(new(big.Int).Sub(lower, big.NewInt(1))) < 0 {
					cls := "decrease-below-95pct"
					if n > 1 {
						cls += ":sum-over-several-messages"
					}
					out = append(out, o.v(b.H, "ante", cls, "tx %d (%s) was admitted: bonded %s - %s undelegated = %s is below 95%% of the period baseline %s (= %s)", i, intentKinds(in), o.prevBonded, subs, below, o.prevBase, lower))
				}
			}
		}
		if touches && tr.Code == 0 {
			stakeSeen = true
		}
	}
	return out
}

func (o *OracleC18) End(c *Chain) []*Violation { return nil }
