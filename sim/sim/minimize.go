package sim

import (
	"encoding/json"
	"time"
)

func cloneTrace(t *Trace) *Trace {
	b, _ := json.Marshal(t)
	var c Trace
	_ = json.Unmarshal(b, &c)
	return &c
}

// Minimize shrinks a failing trace while the same violation class (signature) persists.
// Budgeted; every candidate is a full PRNG-free replay.
func Minimize(tr *Trace, sig string, opts RunOpts, budget time.Duration) (*Trace, int) {
	deadline := time.Now().Add(budget)
	tries := 0
	best := cloneTrace(tr)
	fails := func(c *Trace) bool {
		if time.Now().After(deadline) {
			return false
		}
		tries++
		r := Replay(c, opts)
		if r.Internal != nil {
			return false
		}
		for _, v := range r.Violations {
			if v.Signature() == sig || (len(sig) > 4 && sig[:4] == "C01/" && v.Property == "C01") {
				c.Violation = v
				return true
			}
		}
		return false
	}
	// 0. truncate after the violating height
	if best.Violation != nil && best.Violation.Height > 0 && int(best.Violation.Height) < len(best.Plans) {
		c := cloneTrace(best)
		c.Plans = c.Plans[:best.Violation.Height]
		if fails(c) {
			best = c
		}
	}
	// 1. strip all faults at once, then kind by kind
	strip := func(c *Trace, kind string, from, to int) {
		for i := from; i < to && i < len(c.Plans); i++ {
			p := c.Plans[i]
			switch kind {
			case "absent":
				p.Absent = nil
			case "failed":
				p.FailedRounds = nil
			case "crash":
				p.Crashes = nil
			case "ext":
				p.ExtMut = nil
			case "tamper":
				p.TamperProbes = nil
			case "perm":
				p.PermuteTxs = nil
			case "keyring":
				p.KeyringFail = nil
			case "maxtx":
				p.MaxTxs = 1000
			case "dt":
				if i > 0 {
					p.DtMs = 1000
				}
			case "dup":
				for j := range p.Deliver {
					p.Deliver[j].Dup = false
				}
			case "txfault":
				for j := range p.Deliver {
					p.Deliver[j].Intent.SeqDelta = 0
					p.Deliver[j].Intent.FeeLoya = -1
					p.Deliver[j].Intent.Gas = 0
				}
			}
		}
	}
	kinds := []string{"absent", "failed", "crash", "ext", "tamper", "perm", "keyring", "maxtx", "dup", "txfault", "dt"}
	{
		c := cloneTrace(best)
		for _, k := range kinds {
			strip(c, k, 0, len(c.Plans))
		}
		if fails(c) {
			best = c
		} else {
			for _, k := range kinds {
				c := cloneTrace(best)
				strip(c, k, 0, len(c.Plans))
				if fails(c) {
					best = c
				}
			}
		}
	}
	// 2. delta-debug the intent list
	type ref struct{ h, i int }
	collect := func(t *Trace) []ref {
		var out []ref
		for h, p := range t.Plans {
			for i := range p.Deliver {
				out = append(out, ref{h, i})
			}
		}
		return out
	}
	remove := func(t *Trace, drop map[ref]bool) *Trace {
		c := cloneTrace(t)
		for h, p := range c.Plans {
			var keep []Delivery
			for i, d := range p.Deliver {
				if !drop[ref{h, i}] {
					keep = append(keep, d)
				}
			}
			p.Deliver = keep
		}
		return c
	}
	chunk := len(collect(best)) / 2
	for chunk >= 1 && time.Now().Before(deadline) {
		refs := collect(best)
		progressed := false
		for start := 0; start < len(refs); start += chunk {
			end := start + chunk
			if end > len(refs) {
				end = len(refs)
			}
			drop := map[ref]bool{}
			for _, r := range refs[start:end] {
				drop[r] = true
			}
			c := remove(best, drop)
			if fails(c) {
				best = c
				progressed = true
				break
			}
		}
		if !progressed {
			chunk /= 2
		}
	}
	// 3. multi-message transactions: drop messages one at a time
	for h := 0; h < len(best.Plans) && time.Now().Before(deadline); h++ {
		for i := 0; i < len(best.Plans[h].Deliver); i++ {
			for len(best.Plans[h].Deliver[i].Intent.Msgs) > 1 {
				c := cloneTrace(best)
				m := c.Plans[h].Deliver[i].Intent.Msgs
				c.Plans[h].Deliver[i].Intent.Msgs = m[:len(m)-1]
				if fails(c) {
					best = c
				} else {
					break
				}
			}
		}
	}
	// 4. per-height fault stripping for what is left
	for _, k := range kinds {
		for h := 0; h < len(best.Plans) && time.Now().Before(deadline); h++ {
			c := cloneTrace(best)
			before, _ := json.Marshal(c.Plans[h])
			strip(c, k, h, h+1)
			after, _ := json.Marshal(c.Plans[h])
			if string(before) == string(after) {
				continue
			}
			if fails(c) {
				best = c
			}
		}
	}
	return best, tries
}
