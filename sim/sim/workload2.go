package sim

import (
	"fmt"
	"math/big"
)

// registerMoreOps adds the dispute / bridge / governance / adversarial operations.
func registerMoreOps(w *Workload) {
}

// refreshAims recomputes the instants (unix ms) that the clock fault likes to hit.
func (w *Workload) refreshAims() {
	w.g.TimeAims = w.g.TimeAims[:0]
	if exp, ok := w.trackerExpiry(); ok {
		w.g.TimeAims = append(w.g.TimeAims, exp)
	}
}

func (w *Workload) trackerExpiry() (int64, bool) {
	_, exp := w.v.TrackerAmount()
	return exp, exp > 0
}

func (w *Workload) customQuery(typ string) string {
	return "typ:" + typ + ":" + fmt.Sprintf("%x", AbiEncode(AbiString("a")))
}

func (w *Workload) customValue(q string) string {
	return fmt.Sprintf("%064x", w.r.Intn(5))
}

// depositValue encodes (address recipient, string layerRecipient, uint256 amount, uint256 tip).
func (w *Workload) depositValue(q string) string {
	r := w.r
	to := w.acc().Addr(r.Intn(len(w.acc().Actors))).String()
	amt := new(big.Int).Mul(big.NewInt(r.LogUniform(1, 1_000_000_000)), big.NewInt(1_000_000_000_000))
	tip := new(big.Int).Mul(big.NewInt(r.LogUniform(1, 1_000_000)), big.NewInt(1_000_000_000_000))
	if r.Chance(0.5) {
		tip = big.NewInt(0)
	}
	// few distinct values per deposit so that reporters agree
	return fmt.Sprintf("%x", AbiEncode(AbiAddress(make([]byte, 20)), AbiString(to), AbiUint(amt), AbiUint(tip)))
}
