package sim

import (
	"encoding/hex"
	"fmt"
	"math/big"
	"sort"
	"strings"

	disputetypes "github.com/tellor-io/layer/x/dispute/types"

	"cosmossdk.io/collections"
	"cosmossdk.io/math"

	sdk "github.com/cosmos/cosmos-sdk/types"
	govv1 "github.com/cosmos/cosmos-sdk/x/gov/types/v1"
)

// registerMoreOps adds the dispute / bridge / governance / adversarial operations.
func registerMoreOps(w *Workload) {
	w.ops["propose_dispute"] = w.opProposeDispute
	w.ops["add_fee"] = w.opAddFee
	w.ops["vote"] = w.opVote
	w.ops["withdraw_fee_refund"] = w.opWithdrawFeeRefund
	w.ops["claim_reward"] = w.opClaimReward
	w.ops["add_evidence"] = w.opAddEvidence
	w.ops["update_team"] = w.opUpdateTeam
	w.ops["request_attestations"] = w.opRequestAttestations
	w.ops["withdraw_tokens"] = w.opWithdrawTokens
	w.ops["claim_deposits"] = w.opClaimDeposits
	w.ops["deposit_report"] = w.opDepositReport
	w.ops["register_spec"] = w.opRegisterSpec
	w.ops["gov_proposal"] = w.opGovProposal
	w.ops["gov_vote"] = w.opGovVote
	w.ops["privileged_direct"] = w.opPrivilegedDirect
	w.ops["multi"] = w.opMulti
	w.ops["wrong_signer"] = w.opWrongSigner
	w.ops["create_validator"] = w.opCreateValidator
	w.ops["unjail_validator"] = w.opUnjailValidator
	w.ops["cancel_unbonding"] = w.opCancelUnbonding
	w.ops["tie_reports"] = w.opTieReport
	w.ops["tie_vote"] = w.opTieVote
	w.ops["op_reporter"] = w.opOperatorReporter
	w.ops["double_report"] = w.opDoubleReport
	w.ops["dispute_round"] = w.opDisputeRound
}

// ---------------------------------------------------------------- views used by the workload

type DisputeInfo struct {
	D disputetypes.Dispute
	V *disputetypes.Vote
}

func (v *View) Disputes() []DisputeInfo {
	var out []DisputeInfo
	_ = v.n.App.DisputeKeeper.Disputes.Walk(v.ctx, nil, func(id uint64, d disputetypes.Dispute) (bool, error) {
		di := DisputeInfo{D: d}
		if vt, err := v.n.App.DisputeKeeper.Votes.Get(v.ctx, id); err == nil {
			di.V = &vt
		}
		out = append(out, di)
		return false, nil
	})
	return out
}

type PayerInfoRec struct {
	ID    uint64
	Payer sdk.AccAddress
	Info  disputetypes.PayerInfo
}

func (v *View) FeePayers() []PayerInfoRec {
	var out []PayerInfoRec
	_ = v.n.App.DisputeKeeper.DisputeFeePayer.Walk(v.ctx, nil, func(k collections.Pair[uint64, []byte], p disputetypes.PayerInfo) (bool, error) {
		out = append(out, PayerInfoRec{ID: k.K1(), Payer: sdk.AccAddress(append([]byte{}, k.K2()...)), Info: p})
		return false, nil
	})
	return out
}

type VoterRec struct {
	ID    uint64
	Voter sdk.AccAddress
	Rec   disputetypes.Voter
}

func (v *View) Voters() []VoterRec {
	var out []VoterRec
	_ = v.n.App.DisputeKeeper.Voter.Walk(v.ctx, nil, func(k collections.Pair[uint64, []byte], p disputetypes.Voter) (bool, error) {
		out = append(out, VoterRec{ID: k.K1(), Voter: sdk.AccAddress(append([]byte{}, k.K2()...)), Rec: p})
		return false, nil
	})
	return out
}

func (v *View) TeamAddr() sdk.AccAddress {
	p, err := v.n.App.DisputeKeeper.Params.Get(v.ctx)
	if err != nil {
		return nil
	}
	return sdk.AccAddress(p.TeamAddress)
}

// ---------------------------------------------------------------- aims

// refreshAims recomputes the instants (unix ms) that the clock fault likes to hit.
func (w *Workload) refreshAims() {
	g := w.g
	g.TimeAims = g.TimeAims[:0]
	if _, exp := w.v.TrackerAmount(); exp > 0 {
		g.TimeAims = append(g.TimeAims, exp)
	}
	for _, d := range w.v.Disputes() {
		if d.D.Open || d.D.PendingExecution {
			g.TimeAims = append(g.TimeAims, d.D.DisputeEndTime.UnixMilli())
			if d.V != nil {
				g.TimeAims = append(g.TimeAims, d.V.VoteEnd.UnixMilli())
			}
		}
	}
	for _, rp := range w.v.Reporters() {
		if rp.Rec.Jailed {
			g.TimeAims = append(g.TimeAims, rp.Rec.JailedUntil.UnixMilli())
		}
	}
	// 12 h after deposit aggregates (claim boundary)
	for _, a := range w.v.Aggregates() {
		for _, id := range w.depositIDs {
			if eqBytes(a.QueryID, QueryID(BridgeQueryData(true, id))) {
				g.TimeAims = append(g.TimeAims, int64(a.TsMs)+12*3600_000)
			}
		}
	}
	if len(g.TimeAims) > 40 {
		g.TimeAims = g.TimeAims[len(g.TimeAims)-40:]
	}
}

// ---------------------------------------------------------------- registry / custom specs

func (w *Workload) customQuery(typ string) string {
	return "typ:" + typ + ":" + fmt.Sprintf("%x", AbiEncode(AbiString("a")))
}

func (w *Workload) customValue(q string) string {
	// all custom specs of the workload use word-sized response types
	switch w.r.Intn(4) {
	case 0:
		return fmt.Sprintf("%064x", 1)
	case 1:
		return fmt.Sprintf("%064x", 2)
	}
	return fmt.Sprintf("%064x", w.r.Intn(5))
}

func (w *Workload) opRegisterSpec(h int64) (*Intent, bool) {
	a, ok := w.freeActor(false)
	if !ok {
		return nil, false
	}
	r := w.r
	w.uniq++
	name := Pick(r, []string{"Mode", "Median", "Custom"}) + fmt.Sprint(w.uniq%5)
	if r.Chance(0.15) {
		name = Pick(r, []string{"SpotPrice", "spotprice", "SPOTPRICE", "TRBBridge", "trbbridge", " spotprice", "SpotPrice ", "spotprice\n", "\tTRBBridge", " trbbridge "}) // re-registration attempts incl. whitespace variants (C19)
		if sp := w.wordSpecs(""); len(sp) > 0 && r.Chance(0.4) {
			name = Pick(r, []string{"", " ", "\n"}) + strings.ToUpper(Pick(r, sp).Type) + Pick(r, []string{"", " ", "\t"})
		}
	}
	vt := Pick(r, []string{"uint256", "uint256", "uint256", "bytes32", "bool", "address", "int256", "string", "bytes", "uint256[]", "uint8"})
	method := Pick(r, []string{"weighted-median", "weighted-mode", "weighted-mode", "Weighted-Median", "average"})
	if w.g.Avoid && method != "weighted-mode" {
		// known finding class: non-numeric response types under the median; keep numeric
		vt = "uint256"
	}
	win := uint64(r.Range(0, 6))
	spec := &SpecSpec{ValueType: vt, Method: method, Window: win, Fields: []string{"string"}}
	found := false
	for _, t := range w.specTypes {
		if t == name {
			found = true
		}
	}
	if !found && name != "SpotPrice" && name != "TRBBridge" && len(name) > 0 && (vt == "uint256" || vt == "bytes32" || vt == "uint8" || vt == "int256") {
		w.specTypes = append(w.specTypes, name)
	}
	return w.newIntent(a, MsgSpec{K: "register_spec", S: name, Spec: spec}), true
}

// ---------------------------------------------------------------- bridge

func (w *Workload) depositValueFor(id uint64, variant int) string {
	// deterministic per (id, variant) so that several reporters can agree on a value
	to := w.acc().Addr(int(id+uint64(variant)) % len(w.acc().Actors)).String()
	amtUnits := []int64{1, 5, 1_000_000, 123_456_789, 999_999_999_999, 1}[int(id)%6]
	amt := new(big.Int).Mul(big.NewInt(amtUnits*int64(variant+1)), big.NewInt(1_000_000_000_000))
	tip := new(big.Int).Mul(big.NewInt(int64(variant)*1000), big.NewInt(1_000_000_000_000))
	if !w.g.Avoid {
		switch (int(id) + variant) % 9 {
		case 3:
			tip = new(big.Int).Add(amt, big.NewInt(1_000_000_000_000)) // tip greater than amount
		case 4:
			amt = new(big.Int).Lsh(big.NewInt(1), 63+40) // >= 2^63 * 1e12-ish
		case 5:
			to = "not-a-bech32"
		case 6:
			amt = big.NewInt(999_999_999_999) // rounds to zero
		}
	}
	return fmt.Sprintf("%x", AbiEncode(AbiAddress(make([]byte, 20)), AbiString(to), AbiUint(amt), AbiUint(tip)))
}

func (w *Workload) depositValue(q string) string {
	var id uint64
	fmt.Sscanf(q, "dep:%d", &id)
	v := 0
	if w.r.Chance(0.25) {
		v = 1 + w.r.Intn(2)
	}
	val := w.depositValueFor(id, v)
	if !w.g.Avoid && w.r.Chance(0.05) {
		return val[:len(val)-8] // malformed encoding
	}
	return val
}

func (w *Workload) opDepositReport(h int64) (*Intent, bool) {
	reps := w.v.Reporters()
	if len(reps) == 0 {
		return nil, false
	}
	id := uint64(w.r.Range(1, 5))
	for _, i := range w.r.Perm(len(reps)) {
		if w.usable(reps[i].Actor) {
			found := false
			for _, x := range w.depositIDs {
				if x == id {
					found = true
				}
			}
			if !found {
				w.depositIDs = append(w.depositIDs, id)
			}
			q := fmt.Sprintf("dep:%d", id)
			return w.newIntent(reps[i].Actor, MsgSpec{K: "submit_value", Q: q, V: w.depositValue(q)}), true
		}
	}
	return nil, false
}

func (w *Workload) opClaimDeposits(h int64) (*Intent, bool) {
	a, ok := w.freeActor(false)
	if !ok {
		return nil, false
	}
	r := w.r
	n := 1
	if r.Chance(0.3) {
		n = 2 + r.Intn(2)
	}
	var ids, idx []uint64
	for i := 0; i < n; i++ {
		id := uint64(r.Range(1, 5))
		if len(w.depositIDs) > 0 && r.Chance(0.8) {
			id = Pick(r, w.depositIDs)
		}
		if i > 0 && r.Chance(0.3) {
			id = ids[0] // same id twice in one message
		}
		ids = append(ids, id)
		idx = append(idx, uint64(r.Intn(3)))
	}
	if r.Chance(0.05) {
		idx = idx[:len(idx)-1] // length mismatch
	}
	return w.newIntent(a, MsgSpec{K: "claim_deposits", Ids: ids, Ids2: idx}), true
}

func (w *Workload) opWithdrawTokens(h int64) (*Intent, bool) {
	a, ok := w.freeActor(false)
	if !ok {
		return nil, false
	}
	bal := w.v.Balance(w.acc().Addr(a))
	rcp := Pick(w.r, []string{"3386518f7ab3eb51591571adbe62cf94540ead29", "3386518F7AB3EB51591571ADBE62CF94540EAD29", "00", "", "zz", "0x3386518f7ab3eb51591571adbe62cf94540ead29",
		"3386518f7ab3eb51591571adbe62cf94540ead293386518f7ab3eb51591571adbe62cf94540ead29", "3386518f7ab3eb51591571adbe62cf94540ead29"})
	return w.newIntent(a, MsgSpec{K: "withdraw_tokens", S: rcp, N: w.amount(bal.QuoRaw(5))}), true
}

func (w *Workload) opRequestAttestations(h int64) (*Intent, bool) {
	a, ok := w.freeActor(false)
	if !ok {
		return nil, false
	}
	aggs := w.v.Aggregates()
	r := w.r
	if len(aggs) > 0 && r.Chance(0.85) {
		ag := Pick(r, aggs)
		ts := ag.TsMs
		switch r.Intn(10) {
		case 0:
			ts++
		case 1:
			ts--
		}
		qid := hex.EncodeToString(ag.QueryID)
		if r.Chance(0.1) {
			qid = "0x" + qid
		}
		return w.newIntent(a, MsgSpec{K: "request_attestations", S: qid, V: fmt.Sprint(ts)}), true
	}
	return w.newIntent(a, MsgSpec{K: "request_attestations", S: Pick(r, []string{"", "zz", hex.EncodeToString(Keccak([]byte("none")))}), V: Pick(r, []string{"0", "-1", "18446744073709551615", "abc", "1700000000000"})}), true
}

// ---------------------------------------------------------------- disputes

func (w *Workload) reportSpecOf(ri ReportInfo) *ReportSpec {
	return &ReportSpec{Reporter: w.acc().ActorByAddr(ri.Reporter), Power: ri.Rep.Power, QueryType: ri.Rep.QueryType, Q: "", Method: ri.Rep.AggregateMethod,
		Value: ri.Rep.Value, TimeNs: ri.Rep.Timestamp.UnixNano(), Cyclelist: ri.Rep.Cyclelist, Block: ri.Rep.BlockNumber}
}

// queryNameByID finds a name whose query data hashes to the id (the workload only disputes queries it can name).
func (w *Workload) queryNameByID(qid []byte) (string, bool) {
	for _, q := range w.v.Queries() {
		if eqBytes(q.QueryID, qid) {
			return "raw:" + hex.EncodeToString(q.Meta.QueryData), true
		}
	}
	for _, n := range spotNames {
		if eqBytes(QueryID(QueryDataOf("spot:"+n)), qid) {
			return "spot:" + n, true
		}
	}
	for id := uint64(0); id < 8; id++ {
		if eqBytes(QueryID(BridgeQueryData(true, id)), qid) {
			return fmt.Sprintf("dep:%d", id), true
		}
	}
	for _, sp := range w.wordSpecs("") {
		if eqBytes(QueryID(QueryDataOf(w.customQuery(sp.Type))), qid) {
			return w.customQuery(sp.Type), true
		}
	}
	return "", false
}

func (w *Workload) opProposeDispute(h int64) (*Intent, bool) {
	reps := w.v.Reports()
	if len(reps) == 0 {
		return nil, false
	}
	a, ok := w.freeActor(false)
	if !ok {
		return nil, false
	}
	r := w.r
	ri := Pick(r, reps)
	name, ok := w.queryNameByID(ri.QueryID)
	if !ok {
		return nil, false
	}
	if w.g.Avoid {
		// known finding: backers moved their stake between report and dispute
		if snap, err := w.v.n.App.ReporterKeeper.Report.Get(w.v.ctx, collJoinReport(ri.QueryID, ri.Reporter, ri.Rep.BlockNumber)); err == nil {
			for _, t := range snap.TokenOrigins {
				if w.movedStake[string(t.DelegatorAddress)] {
					return nil, false
				}
			}
		}
		// known finding: a report that an earlier dispute already took stake for is disputed again
		for _, d := range w.v.Disputes() {
			e := d.D.InitialEvidence
			if e.Reporter == ri.Rep.Reporter && e.BlockNumber == ri.Rep.BlockNumber && eqBytes(e.QueryId, ri.QueryID) {
				return nil, false
			}
		}
	}
	rs := w.reportSpecOf(ri)
	rs.Q = name
	note := "real"
	if r.Chance(0.25) && !w.g.Avoid { // known finding: the claimed report is not compared with the stored one
		// altered or invented report (C11: must be rejected)
		switch r.Intn(6) {
		case 0:
			rs.Power = rs.Power*3 + 1
			note = "altered-power"
		case 1:
			rs.Value = fmt.Sprintf("%064x", 424242)
			note = "altered-value"
		case 2:
			rs.Block = rs.Block + 1
			note = "altered-block"
		case 3:
			rs.Q = "spot:" + Pick(r, spotNames)
			note = "altered-query"
		case 4:
			rs.Reporter = r.Intn(len(w.acc().Actors))
			note = "altered-reporter"
		default:
			rs.Power = uint64(r.Range(1, 5))
			if rs.Power == ri.Rep.Power {
				rs.Power++
			}
			note = "altered-power"
		}
	}
	cat := int32(r.Range(1, 3))
	if r.Chance(0.03) {
		cat = Pick(r, []int32{0, 4, -1})
	}
	// the fee: category share of power*1e6
	pct := map[int32]int64{1: 1, 2: 5, 3: 100}[cat]
	full := new(big.Int).Mul(new(big.Int).SetUint64(rs.Power), big.NewInt(1_000_000))
	full.Mul(full, big.NewInt(pct)).Div(full, big.NewInt(100))
	fee := new(big.Int).Set(full)
	switch r.Intn(6) {
	case 0:
		fee.Div(fee, big.NewInt(2)) // partial
	case 1:
		fee.Div(fee, big.NewInt(3))
	case 2:
		fee.Add(fee, big.NewInt(12345)) // over-payment is capped
	case 3:
		fee.SetInt64(r.Range(1, 20_000)) // around the 10 000 minimum
	}
	fromBond := r.Chance(0.25) && !w.g.Avoid // known finding: fee paid from stake is short by truncation units
	if fromBond && r.Chance(0.7) {
		// paying from stake needs a reporter with stake
		if ra, ok := w.usableReporter(-1); ok {
			a = ra
		}
	}
	in := w.newIntent(a, MsgSpec{K: "propose_dispute", Rep: rs, E: cat, N: fee.String(), B: fromBond})
	in.Note = note
	return in, true
}

func (w *Workload) opAddFee(h int64) (*Intent, bool) {
	ds := w.v.Disputes()
	a, ok := w.freeActor(false)
	if !ok {
		return nil, false
	}
	r := w.r
	var open []DisputeInfo
	for _, d := range ds {
		if d.D.DisputeStatus == disputetypes.Prevote && d.D.Open {
			open = append(open, d)
		}
	}
	if len(open) == 0 {
		if len(ds) == 0 || !r.Chance(0.1) {
			return nil, false
		}
		open = ds
	}
	d := Pick(r, open)
	missing := d.D.SlashAmount.Sub(d.D.FeeTotal)
	var amt math.Int
	switch r.Intn(5) {
	case 0:
		amt = missing.QuoRaw(2)
	case 1:
		amt = missing.AddRaw(777)
	case 2:
		amt = math.NewInt(r.Range(0, 1000))
	default:
		amt = missing
	}
	// sometimes the same payer pays again (C13: repeated payments)
	if r.Chance(0.3) {
		for _, p := range w.v.FeePayers() {
			if p.ID == d.D.DisputeId {
				if pa := w.acc().ActorByAddr(p.Payer); w.usable(pa) {
					a = pa
				}
			}
		}
	}
	fromBond := r.Chance(0.2) && !w.g.Avoid
	if !w.g.Avoid {
		// several payers paying from stake share one fee tracker (C13: every payer can claim its part)
		for _, p := range w.v.FeePayers() {
			if p.ID == d.D.DisputeId && p.Info.FromBond && r.Chance(0.6) {
				if ra, ok := w.usableReporter(w.acc().ActorByAddr(p.Payer)); ok {
					a, fromBond = ra, true
					if r.Chance(0.7) {
						amt = missing
					}
				}
				break
			}
		}
	}
	return w.newIntent(a, MsgSpec{K: "add_fee", U: d.D.DisputeId, N: amt.String(), B: fromBond}), true
}

// usableReporter picks a usable actor that is a registered reporter (other than `not`).
func (w *Workload) usableReporter(not int) (int, bool) {
	reps := w.v.Reporters()
	for _, i := range w.r.Perm(len(reps)) {
		if reps[i].Actor != not && reps[i].Actor >= 0 && w.usable(reps[i].Actor) {
			return reps[i].Actor, true
		}
	}
	return 0, false
}

func (w *Workload) opVote(h int64) (*Intent, bool) {
	ds := w.v.Disputes()
	var voting []DisputeInfo
	for _, d := range ds {
		if d.D.DisputeStatus == disputetypes.Voting {
			voting = append(voting, d)
		}
	}
	r := w.r
	if len(voting) == 0 {
		if len(ds) == 0 || !r.Chance(0.05) {
			return nil, false
		}
		voting = ds
	}
	d := Pick(r, voting)
	// prefer interesting voters: team, reporters, selectors, tippers
	var a int
	ok := false
	if r.Chance(0.25) {
		a = w.acc().ActorByAddr(w.v.TeamAddr())
		ok = w.usable(a)
	}
	if !ok && r.Chance(0.5) {
		sels := w.v.Selectors()
		if len(sels) > 0 {
			a = Pick(r, sels).Actor
			ok = w.usable(a)
		}
	}
	if !ok {
		a, ok = w.freeActor(r.Chance(0.1))
	}
	if !ok {
		return nil, false
	}
	choice := int32(r.Intn(3))
	if r.Chance(0.02) {
		choice = 7
	}
	return w.newIntent(a, MsgSpec{K: "vote", U: d.D.DisputeId, E: choice}), true
}

func (w *Workload) opWithdrawFeeRefund(h int64) (*Intent, bool) {
	ps := w.v.FeePayers()
	a, ok := w.freeActor(false)
	if !ok {
		return nil, false
	}
	if len(ps) == 0 {
		return nil, false
	}
	p := Pick(w.r, ps)
	id := p.ID
	if w.r.Chance(0.1) {
		id = uint64(w.r.Range(0, 6))
	}
	return w.newIntent(a, MsgSpec{K: "withdraw_fee_refund", U: id, T: w.acc().ActorByAddr(p.Payer)}), true
}

func (w *Workload) opClaimReward(h int64) (*Intent, bool) {
	vs := w.v.Voters()
	if len(vs) == 0 {
		return nil, false
	}
	for _, i := range w.r.Perm(len(vs)) {
		a := w.acc().ActorByAddr(vs[i].Voter)
		if w.usable(a) {
			id := vs[i].ID
			// later rounds: claim on the latest round id of the dispute
			for _, d := range w.v.Disputes() {
				for _, pid := range d.D.PrevDisputeIds {
					if pid == id && w.r.Chance(0.7) {
						id = d.D.DisputeId
					}
				}
			}
			return w.newIntent(a, MsgSpec{K: "claim_reward", U: id}), true
		}
	}
	return nil, false
}

func (w *Workload) opAddEvidence(h int64) (*Intent, bool) {
	ds := w.v.Disputes()
	reps := w.v.Reports()
	if len(ds) == 0 || len(reps) == 0 {
		return nil, false
	}
	a, ok := w.freeActor(false)
	if !ok {
		return nil, false
	}
	d := Pick(w.r, ds)
	var rs []ReportSpec
	for i := 0; i < 1+w.r.Intn(2); i++ {
		ri := Pick(w.r, reps)
		name, ok := w.queryNameByID(ri.QueryID)
		if !ok {
			continue
		}
		s := w.reportSpecOf(ri)
		s.Q = name
		rs = append(rs, *s)
	}
	if len(rs) == 0 {
		return nil, false
	}
	return w.newIntent(a, MsgSpec{K: "add_evidence", U: d.D.DisputeId, Reps: rs}), true
}

func (w *Workload) opUpdateTeam(h int64) (*Intent, bool) {
	team := w.acc().ActorByAddr(w.v.TeamAddr())
	if w.g.Avoid {
		// known finding: the team address changing while a dispute is being voted on
		for _, d := range w.v.Disputes() {
			if d.D.DisputeStatus == disputetypes.Voting || d.D.DisputeStatus == disputetypes.Unresolved {
				return nil, false
			}
		}
	}
	if w.r.Chance(0.5) && w.usable(team) {
		return w.newIntent(team, MsgSpec{K: "update_team", T: w.r.Intn(len(w.acc().Actors))}), true
	}
	a, ok := w.freeActor(false)
	if !ok {
		return nil, false
	}
	// non-team signer; sometimes names the real team in the message body (signer mismatch -> ante rejects)
	m := MsgSpec{K: "update_team", T: a}
	if w.r.Chance(0.5) && team >= 0 {
		m.As = &team
	}
	return w.newIntent(a, m), true
}

// ---------------------------------------------------------------- governance

func (w *Workload) privilegedMsg() MsgSpec {
	r := w.r
	if w.g.Long && r.Chance(0.6) {
		return MsgSpec{K: "mint_init"}
	}
	switch r.Intn(8) {
	case 7:
		// governance lowers (or restores) the staking validator cap: validators beyond it leave the bonded set
		nv := len(w.g.C.Cfg.ValStakes)
		return MsgSpec{K: "staking_update_params", U: uint64(Pick(r, []int{max(1, nv-1), max(1, nv-2), nv, 100}))}
	case 0:
		return MsgSpec{K: "mint_init"}
	case 1:
		return MsgSpec{K: "update_snapshot_limit", U: Pick(r, []uint64{0, 1, 2, 5, 1000})}
	case 2:
		// cycle list: shorter, longer, reordered, sometimes empty
		n := int(r.Range(0, 5))
		if w.g.Avoid && n < len(w.g.C.Cfg.CycleList) {
			n = len(w.g.C.Cfg.CycleList) + r.Intn(2)
		}
		var qs []string
		for _, i := range r.Perm(len(spotNames)) {
			if len(qs) < n {
				qs = append(qs, "spot:"+spotNames[i])
			}
		}
		if !w.g.Avoid && r.Chance(0.3) {
			// entries the oracle cannot open a round for: unknown query type, undecodable query data
			qs = append(qs, Pick(r, []string{"typ:NoSuchType:" + fmt.Sprintf("%x", AbiEncode(AbiString("x"))), "raw:010203", "wd:1", "dep:3"}))
		}
		return MsgSpec{K: "update_cyclelist", Qs: qs}
	case 3:
		return MsgSpec{K: "oracle_update_params", N: Pick(r, []string{"1000000", "2000000", "1", "0"})}
	case 4:
		return MsgSpec{K: "reporter_update_params", N: Pick(r, []string{"1000000", "2000000"}), U: Pick(r, []uint64{1, 2, 5, 100})}
	default:
		win := uint64(r.Range(0, 8))
		return MsgSpec{K: "update_dataspec", S: Pick(r, []string{"SpotPrice", "spotprice", "TRBBridge", "nosuch"}), Spec: &SpecSpec{ValueType: "uint256", Method: "weighted-median", Window: win, Fields: []string{"string", "string"}}}
	}
}

func (w *Workload) opGovProposal(h int64) (*Intent, bool) {
	a, ok := w.freeActor(false)
	if !ok {
		return nil, false
	}
	if w.v.Balance(w.acc().Addr(a)).LT(math.NewInt(60_000_000)) {
		return nil, false
	}
	w.govProposed++
	return w.newIntent(a, MsgSpec{K: "gov_submit", Inner: []MsgSpec{w.privilegedMsg()}, N: Pick(w.r, []string{"10000000", "10000000", "50000000"}), B: false}), true
}

func (w *Workload) opGovVote(h int64) (*Intent, bool) {
	// validators' operators vote yes on everything in voting period
	var props []uint64
	_ = w.v.n.App.GovKeeper.Proposals.Walk(w.v.ctx, nil, func(id uint64, p govv1.Proposal) (bool, error) {
		if p.Status == govv1.StatusVotingPeriod {
			props = append(props, id)
		}
		return false, nil
	})
	if len(props) == 0 {
		return nil, false
	}
	for _, i := range w.r.Perm(w.acc().NumOps()) {
		if !w.usable(i) {
			continue
		}
		id := Pick(w.r, props)
		if _, err := w.v.n.App.GovKeeper.Votes.Get(w.v.ctx, collections.Join(id, w.acc().Addr(i))); err == nil {
			continue
		}
		opt := int32(govv1.OptionYes)
		if w.r.Chance(0.1) {
			opt = int32(govv1.OptionNo)
		}
		return w.newIntent(i, MsgSpec{K: "gov_vote", U: id, E: opt}), true
	}
	return nil, false
}

// opPrivilegedDirect: a privileged message sent by an ordinary account (must be rejected).
func (w *Workload) opPrivilegedDirect(h int64) (*Intent, bool) {
	a, ok := w.freeActor(false)
	if !ok {
		return nil, false
	}
	m := w.privilegedMsg()
	return w.newIntent(a, m), true
}

// ---------------------------------------------------------------- composite / adversarial

func (w *Workload) opMulti(h int64) (*Intent, bool) {
	// several messages of one signer in one transaction (atomicity, C18 sums)
	r := w.r
	kinds := []string{"tip", "delegate", "undelegate", "redelegate", "send", "submit_value", "withdraw_tip", "vote", "add_fee", "delegate", "delegate", "undelegate"}
	var first *Intent
	n := 2 + r.Intn(4)
	for tries := 0; tries < 20 && (first == nil || len(first.Msgs) < n); tries++ {
		k := Pick(r, kinds)
		in, ok := w.ops[k](h)
		if !ok {
			continue
		}
		if first == nil {
			first = in
			w.busy[in.Actor] = false
			continue
		}
		// re-target the message to the first signer
		m := in.Msgs[0]
		first.Msgs = append(first.Msgs, m)
	}
	if first == nil || len(first.Msgs) < 2 {
		return nil, false
	}
	first.Note = "multi"
	return first, true
}

// opWrongSigner: the message names another account as its signer while the tx is signed by the attacker.
func (w *Workload) opWrongSigner(h int64) (*Intent, bool) {
	r := w.r
	kinds := []string{"tip", "send", "undelegate", "select_reporter", "switch_reporter", "withdraw_tip", "withdraw_tokens", "unjail_reporter", "create_reporter"}
	in, ok := w.ops[Pick(r, kinds)](h)
	if !ok {
		return nil, false
	}
	victim := in.Actor
	attacker, ok := w.freeActor(false)
	if !ok || attacker == victim {
		return nil, false
	}
	for i := range in.Msgs {
		v := victim
		in.Msgs[i].As = &v
	}
	in.Actor = attacker
	in.Note = "wrong-signer"
	return in, true
}

func (w *Workload) opCreateValidator(h int64) (*Intent, bool) {
	nGen := len(w.g.C.Cfg.ValStakes)
	for i := nGen; i < w.acc().NumOps(); i++ {
		if !w.usable(i) {
			continue
		}
		if _, ok := w.v.Validator(w.acc().ValAddrOf(i)); ok {
			continue
		}
		return w.newIntent(i, MsgSpec{K: "create_validator", N: w.stakeAmount(math.NewInt(40_000_000_000))}), true
	}
	return nil, false
}

func (w *Workload) opUnjailValidator(h int64) (*Intent, bool) {
	for _, val := range w.v.Validators() {
		if val.Jailed {
			va, _ := sdk.ValAddressFromBech32(val.OperatorAddress)
			a := w.acc().ActorByAddr(va)
			if w.usable(a) {
				return w.newIntent(a, MsgSpec{K: "unjail_validator"}), true
			}
		}
	}
	return nil, false
}

func (w *Workload) opCancelUnbonding(h int64) (*Intent, bool) {
	a := w.acc()
	for _, i := range w.r.Perm(len(a.Actors)) {
		if !w.usable(i) {
			continue
		}
		ubds, err := w.v.n.App.StakingKeeper.GetAllUnbondingDelegations(w.v.ctx, a.Actors[i].Addr)
		if err != nil || len(ubds) == 0 {
			continue
		}
		u := ubds[0]
		if len(u.Entries) == 0 {
			continue
		}
		e := u.Entries[w.r.Intn(len(u.Entries))]
		va, _ := sdk.ValAddressFromBech32(u.ValidatorAddress)
		return w.newIntent(i, MsgSpec{K: "cancel_unbonding", Val: a.ActorByAddr(va), N: w.stakeAmount(e.Balance), U: uint64(e.CreationHeight)}), true
	}
	return nil, false
}

// wordSpecs returns registered custom specs whose response type is one 32-byte word.
func (w *Workload) wordSpecs(method string) []SpecInfo {
	var out []SpecInfo
	for _, sp := range w.v.Specs() {
		if sp.Type == "spotprice" || sp.Type == "trbbridge" {
			continue
		}
		switch sp.Spec.ResponseValueType {
		case "uint256", "bytes32", "uint8", "int256":
		default:
			continue
		}
		if method == "" || sp.Spec.AggregationMethod == method {
			out = append(out, sp)
		}
	}
	return out
}

// opTieReport: reporters report one of two (or, per query, three) values on a weighted-mode query, so that with equal powers
// exact ties occur (C01 tie rule, C06 mode definition). Tips the query when no round is open.
func (w *Workload) opTieReport(h int64) (*Intent, bool) {
	specs := w.wordSpecs("weighted-mode")
	if len(specs) == 0 {
		return w.opRegisterSpec(h)
	}
	sp := Pick(w.r, specs)
	q := w.customQuery(sp.Type)
	qid := QueryID(QueryDataOf(q))
	open := false
	for _, qi := range w.v.Queries() {
		if eqBytes(qi.QueryID, qid) && qi.Meta.Expiration >= uint64(h) && qi.Meta.Amount.IsPositive() {
			open = true
		}
	}
	if !open {
		// the round is preferably opened in a block from which its window ends together with the window of the
		// current cycle-list round: several rounds, of different aggregation methods, then close in one EndBlock
		aligned := false
		for _, qi := range w.v.Queries() {
			if qi.Meta.CycleList && qi.Meta.Expiration == uint64(h)+sp.Spec.ReportBlockWindow {
				aligned = true
			}
		}
		if !aligned && w.r.Chance(0.5) {
			return nil, false
		}
		a, ok := w.freeActor(false)
		if !ok {
			return nil, false
		}
		return w.newIntent(a, MsgSpec{K: "tip", Q: q, N: fmt.Sprint(w.r.Range(1000, 5_000_000))}), true
	}
	reps := w.v.Reporters()
	sort.Slice(reps, func(i, j int) bool { return reps[i].Actor < reps[j].Actor })
	if w.r.Chance(0.35) {
		// a burst: three reporters report three different values in one block, the one with the largest stake the
		// smallest value. Unless it holds half of the three stakes, the heaviest value (mode) is then not the middle
		// one (median): a mix-up of the aggregation methods shows on such a round.
		var us []ReporterInfo
		for _, rp := range reps {
			if w.usable(rp.Actor) {
				us = append(us, rp)
			}
		}
		if len(us) >= 3 {
			stake := func(rp ReporterInfo) int64 { return w.v.BondedStakeOf(rp.Addr).QuoRaw(1000).Int64() }
			sort.SliceStable(us, func(i, j int) bool { return stake(us[i]) > stake(us[j]) })
			us = us[:3]
			for k := 1; k < 3; k++ {
				w.extra = append(w.extra, w.newIntent(us[k].Actor, MsgSpec{K: "submit_value", Q: q, V: fmt.Sprintf("%064x", 1+k)}))
			}
			// and somebody reports the open cycle-list round, so that it produces an aggregate too
			for _, qi := range w.v.Queries() {
				if qi.Meta.CycleList && qi.Meta.Expiration >= uint64(h) {
					for _, rp := range reps {
						if w.usable(rp.Actor) && rp.Actor != us[0].Actor && rp.Actor != us[1].Actor && rp.Actor != us[2].Actor {
							cq := "raw:" + fmt.Sprintf("%x", qi.Meta.QueryData)
							w.extra = append(w.extra, w.newIntent(rp.Actor, MsgSpec{K: "submit_value", Q: cq, V: w.valueFor(w.canonName(cq))}))
							break
						}
					}
					break
				}
			}
			return w.newIntent(us[0].Actor, MsgSpec{K: "submit_value", Q: q, V: fmt.Sprintf("%064x", 1)}), true
		}
	}
	for _, i := range w.r.Perm(len(reps)) {
		if w.usable(reps[i].Actor) {
			// two values (exact ties with equal powers) or three (the heaviest value is then often not the middle one:
			// weighted mode and weighted median of the same reports differ)
			nv := 2 + int(qid[0])%2
			return w.newIntent(reps[i].Actor, MsgSpec{K: "submit_value", Q: q, V: fmt.Sprintf("%064x", 1+i%nv)}), true
		}
	}
	return nil, false
}

// opTieVote steers a dispute into an exact tie of the group fractions: two token holders with identical
// balances (and identical fee history) vote opposite ways and nobody else votes.
func (w *Workload) opTieVote(h int64) (*Intent, bool) {
	tw := w.g.C.Cfg.Twins
	if len(tw) != 2 {
		return nil, false
	}
	a0, a1 := w.acc().ActorOfAcct(tw[0]), w.acc().ActorOfAcct(tw[1])
	voters := w.v.Voters()
	for _, d := range w.v.Disputes() {
		if d.D.DisputeStatus != disputetypes.Voting {
			continue
		}
		n, v0, v1 := 0, false, false
		for _, vr := range voters {
			if vr.ID == d.D.DisputeId {
				n++
				if string(vr.Voter) == string(w.acc().Addr(a0)) {
					v0 = true
				}
				if string(vr.Voter) == string(w.acc().Addr(a1)) {
					v1 = true
				}
			}
		}
		if n == 0 && w.acc().Free(a0) && !w.busy[a0] {
			return w.newIntent(a0, MsgSpec{K: "vote", U: d.D.DisputeId, E: 1}), true
		}
		if n == 1 && v0 && !v1 && w.acc().Free(a1) && !w.busy[a1] {
			return w.newIntent(a1, MsgSpec{K: "vote", U: d.D.DisputeId, E: int32(Pick(w.r, []int{2, 0}))}), true
		}
	}
	return nil, false
}

// opOperatorReporter: a validator operator becomes a reporter (its self-delegation gives it the power that
// bridge-deposit aggregates need to reach the two-thirds threshold).
func (w *Workload) opOperatorReporter(h int64) (*Intent, bool) {
	have := map[string]bool{}
	for _, s := range w.v.Selectors() {
		have[string(s.Addr)] = true
	}
	for i := 0; i < w.acc().NumOps(); i++ {
		if w.usable(i) && !have[string(w.acc().Addr(i))] {
			return w.newIntent(i, MsgSpec{K: "create_reporter", V: Pick(w.r, []string{"0", "0.1", "0.5"}), N: fmt.Sprint(w.g.C.Cfg.MinTrb)}), true
		}
	}
	return nil, false
}

// opDoubleReport: one reporter reports two open rounds in one transaction (same reporter in several aggregates
// of one block, micro reports of two queries at the same height).
func (w *Workload) opDoubleReport(h int64) (*Intent, bool) {
	reps := w.v.Reporters()
	var open []string
	for _, q := range w.v.Queries() {
		if q.Meta.Expiration >= uint64(h) && (q.Meta.Amount.IsPositive() || q.Meta.CycleList) {
			open = append(open, "raw:"+fmt.Sprintf("%x", q.Meta.QueryData))
		}
	}
	if len(reps) == 0 || len(open) == 0 {
		return nil, false
	}
	for _, i := range w.r.Perm(len(reps)) {
		if !w.usable(reps[i].Actor) {
			continue
		}
		q1 := Pick(w.r, open)
		q2 := Pick(w.r, open)
		if q2 == q1 {
			q2 = fmt.Sprintf("dep:%d", w.r.Range(1, 5))
		}
		return w.newIntent(reps[i].Actor, MsgSpec{K: "submit_value", Q: q1, V: w.valueFor(w.canonName(q1))}, MsgSpec{K: "submit_value", Q: q2, V: w.valueFor(w.canonName(q2))}), true
	}
	return nil, false
}

// opDisputeRound: start a new round of an unresolved dispute (same report and category, the doubled fee).
func (w *Workload) opDisputeRound(h int64) (*Intent, bool) {
	a, ok := w.freeActor(false)
	if !ok {
		return nil, false
	}
	for _, d := range w.v.Disputes() {
		if d.D.DisputeStatus != disputetypes.Unresolved || !d.D.Open {
			continue
		}
		ev := d.D.InitialEvidence
		name, ok := w.queryNameByID(ev.QueryId)
		if !ok {
			continue
		}
		rep, err := sdk.AccAddressFromBech32(ev.Reporter)
		if err != nil {
			continue
		}
		rs := &ReportSpec{Reporter: w.acc().ActorByAddr(rep), Power: ev.Power, QueryType: ev.QueryType, Q: name, Method: ev.AggregateMethod, Value: ev.Value,
			TimeNs: ev.Timestamp.UnixNano(), Cyclelist: ev.Cyclelist, Block: ev.BlockNumber}
		fee := d.D.SlashAmount // the chain caps the payment at the round fee
		if w.r.Chance(0.15) {
			fee = fee.QuoRaw(100) // too little
		}
		in := w.newIntent(a, MsgSpec{K: "propose_dispute", Rep: rs, E: int32(d.D.DisputeCategory), N: fee.String()})
		in.Note = "new-round"
		return in, true
	}
	return nil, false
}

// opSplitReports: one reporter reports two open rounds in two transactions of the same block (consecutive sequence
// numbers) and, between the two, somebody changes the stake behind it (a selector delegates more, or a new selector
// joins): the two reports of one block carry different stake snapshots.
func (w *Workload) opSplitReports(h int64) (*Intent, bool) {
	reps := w.v.Reporters()
	var open []string
	for _, q := range w.v.Queries() {
		if q.Meta.Expiration >= uint64(h) && (q.Meta.Amount.IsPositive() || q.Meta.CycleList) {
			open = append(open, "raw:"+fmt.Sprintf("%x", q.Meta.QueryData))
		}
	}
	if len(reps) == 0 || len(open) == 0 {
		return nil, false
	}
	sels := w.v.Selectors()
	for _, i := range w.r.Perm(len(reps)) {
		rp := reps[i]
		if !w.usable(rp.Actor) {
			continue
		}
		q1 := Pick(w.r, open)
		q2 := Pick(w.r, open)
		if q2 == q1 {
			q2 = fmt.Sprintf("dep:%d", w.r.Range(1, 5))
		}
		// the stake change in between
		var mid *Intent
		for _, si := range w.r.Perm(len(sels)) {
			s := sels[si]
			if string(s.Reporter) == string(rp.Addr) && s.Actor != rp.Actor && w.usable(s.Actor) {
				bal := w.v.Balance(w.acc().Addr(s.Actor))
				if bal.GT(math.NewInt(2_000_000)) {
					mid = w.newIntent(s.Actor, MsgSpec{K: "delegate", Val: w.randomVal(), N: w.stakeAmount(bal.SubRaw(5000))})
					break
				}
			}
		}
		if mid == nil {
			have := map[string]bool{}
			for _, s := range sels {
				have[string(s.Addr)] = true
			}
			for _, ai := range w.r.Perm(len(w.acc().Actors)) {
				if w.usable(ai) && ai != rp.Actor && !have[string(w.acc().Addr(ai))] && w.v.BondedStakeOf(w.acc().Addr(ai)).IsPositive() {
					mid = w.newIntent(ai, MsgSpec{K: "select_reporter", T: rp.Actor})
					break
				}
			}
		}
		if mid == nil {
			continue
		}
		second := w.newIntent(rp.Actor, MsgSpec{K: "submit_value", Q: q2, V: w.valueFor(w.canonName(q2))})
		second.SeqDelta = 1
		second.Follow = true
		w.extra = append(w.extra, mid, second)
		return w.newIntent(rp.Actor, MsgSpec{K: "submit_value", Q: q1, V: w.valueFor(w.canonName(q1))}), true
	}
	return nil, false
}
