package sim

import (
	abci "github.com/cometbft/cometbft/abci/types"
	dbm "github.com/cosmos/cosmos-db"

	"github.com/tellor-io/layer/app"
)

// ForkResult is a counterfactual execution of the decided block without one transaction (DESIGN §5.3):
// same pre-state (a clone of a node's durable image at h-1), same block, that transaction removed.
type ForkResult struct {
	TxIdx   int
	Without *View
	Pre     map[string]Holdings
	node    *Node
}

func cloneMemDB(src *dbm.MemDB) (*dbm.MemDB, error) {
	dst := dbm.NewMemDB()
	it, err := src.Iterator(nil, nil)
	if err != nil {
		return nil, err
	}
	defer it.Close()
	for ; it.Valid(); it.Next() {
		if err := dst.Set(append([]byte{}, it.Key()...), append([]byte{}, it.Value()...)); err != nil {
			return nil, err
		}
	}
	return dst, nil
}

// startFork clones the durable state of a node at height h-1 and records everybody's holdings there.
func (e *Executor) startFork(from *Node) (*ForkResult, error) {
	c := e.C
	db, err := cloneMemDB(from.DB)
	if err != nil {
		return nil, err
	}
	n, err := newNode(c, 9000+len(c.Blocks), -1, NodeCfg{Pruning: "nothing"}, c.root)
	if err != nil {
		return nil, err
	}
	n.DB = db
	n.App = n.newApp()
	n.Up = true
	f := &ForkResult{node: n, Pre: map[string]Holdings{}}
	if n.App.LastBlockHeight() != from.Height() {
		n.Crash()
		return nil, internalf("fork clone at height %d, source at %d", n.App.LastBlockHeight(), from.Height())
	}
	pv := c.ViewOf(n)
	for _, a := range c.Accounts.Actors {
		f.Pre[string(a.Addr)] = holdingsOf(pv, a.Addr)
	}
	return f, nil
}

// finishFork executes the block without transaction txIdx on the clone.
func (e *Executor) finishFork(f *ForkResult, req *abci.RequestFinalizeBlock, txIdx int) error {
	r2 := *req
	r2.Txs = append(append([][]byte{}, req.Txs[:txIdx]...), req.Txs[txIdx+1:]...)
	if _, err := finalizeOn(f.node, &r2); err != nil {
		return err
	}
	if _, err := f.node.App.Commit(); err != nil {
		return err
	}
	f.TxIdx = txIdx
	f.Without = e.C.ViewOf(f.node)
	e.C.Stats.Probe["counterfactual_forks"]++
	return nil
}

func (f *ForkResult) close() {
	if f != nil && f.node != nil && f.node.App != nil {
		app.VerifForget(f.node.App)
		f.node.App = nil
	}
}
