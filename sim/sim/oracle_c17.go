package sim

import (
	"bytes"
	"crypto/sha256"
	"encoding/hex"
	"encoding/json"
	"fmt"
	"strings"

	"github.com/ethereum/go-ethereum/crypto"
	"github.com/tellor-io/layer/app"
	bridgetypes "github.com/tellor-io/layer/x/bridge/types"
)

// OracleC17 — state side of "vote-extension data reaches state only as signed": what PreBlocker wrote equals
// the accepted lists; an EVM address is registered once, from the validator's own signatures; signatures and
// attestations sit only in the slot of the validator that sent them. (Coherence, tamper rejection and no-panic
// are checked inside the executor, where the handlers are called.)
type OracleC17 struct {
	counters
	prevEVM   map[string][]byte         // operator -> evm address
	prevVS    map[uint64][][]byte       // checkpoint timestamp -> slots
	prevAtt   map[string][][]byte       // snapshot -> slots
	sizedFrom map[string][]EvmValidator // snapshot -> the set its slot array was sized from
	prevSaved []EvmValidator
}

func NewOracleC17() *OracleC17 {
	return &OracleC17{counters: newCounters(), prevEVM: map[string][]byte{}, prevVS: map[uint64][][]byte{}, prevAtt: map[string][][]byte{}, sizedFrom: map[string][]EvmValidator{}}
}
func (o *OracleC17) ID() string { return "C17" }

func (o *OracleC17) v(h int64, oracle, site, class, f string, a ...any) *Violation {
	return &Violation{Property: "C17", Oracle: oracle, Site: site, Class: class, Height: h, Msg: fmt.Sprintf(f, a...)}
}

// recoverInitial: the address both initial signatures recover to (the keyring signs sha256 of the message hash).
func recoverInitial(sigA, sigB []byte) ([]byte, bool) {
	if len(sigA) < 64 || len(sigB) < 64 {
		return nil, false
	}
	cands := func(msg string, sig []byte) [][]byte {
		h1 := sha256.Sum256([]byte(msg))
		h2 := sha256.Sum256(h1[:])
		var out [][]byte
		for _, v := range []byte{0, 1} {
			pub, err := crypto.Ecrecover(h2[:], append(append([]byte{}, sig[:64]...), v))
			if err == nil && len(pub) == 65 {
				out = append(out, Keccak(pub[1:])[12:])
			}
		}
		return out
	}
	as := cands("TellorLayer: Initial bridge signature A", sigA)
	bs := cands("TellorLayer: Initial bridge signature B", sigB)
	for _, a := range as {
		for _, b := range bs {
			if bytes.Equal(a, b) {
				return a, true
			}
		}
	}
	return nil, false
}

func copySlots(s [][]byte) [][]byte {
	out := make([][]byte, len(s))
	for i := range s {
		out[i] = append([]byte{}, s[i]...)
	}
	return out
}

func (o *OracleC17) AfterBlock(c *Chain, b *BlockCtx) []*Violation {
	var out []*Violation
	v := c.ViewOf(b.Ref)
	bk := b.Ref.App.BridgeKeeper
	curEVM := map[string][]byte{}
	_ = bk.OperatorToEVMAddressMap.Walk(v.ctx, nil, func(k string, e bridgetypes.EVMAddress) (bool, error) {
		curEVM[k] = append([]byte{}, e.EVMAddress...)
		return false, nil
	})
	curVS := map[uint64][][]byte{}
	_ = bk.BridgeValsetSignaturesMap.Walk(v.ctx, nil, func(k uint64, s bridgetypes.BridgeValsetSignatures) (bool, error) {
		curVS[k] = copySlots(s.Signatures)
		return false, nil
	})
	curAtt := map[string][][]byte{}
	_ = bk.SnapshotToAttestationsMap.Walk(v.ctx, nil, func(k []byte, s bridgetypes.OracleAttestations) (bool, error) {
		curAtt[string(k)] = copySlots(s.Attestations)
		return false, nil
	})
	var saved []EvmValidator
	if s, err := bk.BridgeValset.Get(v.ctx); err == nil {
		saved = toEvmSet(s)
	}
	defer func() { o.prevEVM, o.prevVS, o.prevAtt, o.prevSaved = curEVM, curVS, curAtt, saved }()

	// the accepted lists of this block
	var inj app.VoteExtTx
	haveInj := false
	if b.H > 1 && len(b.Req.Txs) > 0 && json.Unmarshal(b.Req.Txs[0], &inj) == nil {
		haveInj = true
	}
	// extensions by operator (from the commit embedded in the accepted proposal)
	extOf := map[string]app.BridgeVoteExtension{}
	if haveInj {
		for _, vt := range inj.ExtendedCommitInfo.Votes {
			if vt.BlockIdFlag != 2 {
				continue
			}
			ci := c.consIdxByAddr(vt.Validator.Address)
			if ci < 0 {
				continue
			}
			var ve app.BridgeVoteExtension
			if json.Unmarshal(vt.VoteExtension, &ve) == nil {
				extOf[ValAddr(c.Keys.ValOp[ci]).String()] = ve
			}
		}
	}

	// ---- EVM address registrations: once, only those injected, and from the validator's own signatures
	for op, addr := range curEVM {
		if old, had := o.prevEVM[op]; had {
			if !bytes.Equal(old, addr) {
				out = append(out, o.v(b.H, "state", "OperatorToEVMAddressMap", "evm-address-changed", "EVM address of %s changed from %x to %x", op, old, addr))
			}
			continue
		}
		o.count("registrations_checked")
		injected := false
		if haveInj {
			for i, x := range inj.OpAndEVMAddrs.OperatorAddresses {
				if x == op && i < len(inj.OpAndEVMAddrs.EVMAddresses) {
					injected = true
				}
			}
		}
		if !injected {
			out = append(out, o.v(b.H, "state", "OperatorToEVMAddressMap", "registration-not-injected", "operator %s got EVM address %x in block %d although the accepted proposal does not register it", op, addr, b.H))
			continue
		}
		ve, ok := extOf[op]
		if !ok {
			out = append(out, o.v(b.H, "state", "OperatorToEVMAddressMap", "registration-without-own-extension", "operator %s was registered although the commit holds no vote extension of that validator", op))
			continue
		}
		rec, ok := recoverInitial(ve.InitialSignature.SignatureA, ve.InitialSignature.SignatureB)
		if !ok || !bytes.Equal(rec, addr) {
			out = append(out, o.v(b.H, "state", "OperatorToEVMAddressMap", "registered-address-not-from-own-signatures", "operator %s registered with %x; its own two initial signatures recover to %x", op, addr, rec))
		}
	}
	if haveInj {
		for i, op := range inj.OpAndEVMAddrs.OperatorAddresses {
			if _, had := o.prevEVM[op]; had || i >= len(inj.OpAndEVMAddrs.EVMAddresses) {
				continue
			}
			if _, now := curEVM[op]; !now {
				out = append(out, o.v(b.H, "state", "OperatorToEVMAddressMap", "injected-registration-not-written", "the accepted proposal registers %s but no address was stored", op))
			}
		}
	}

	// ---- validator-set signature slots
	for ts, slots := range curVS {
		old := o.prevVS[ts]
		idx, err := bk.ValsetTimestampToIdxMap.Get(v.ctx, ts)
		if err != nil || idx.Index == 0 {
			continue
		}
		pts, err := bk.ValidatorCheckpointIdxMap.Get(v.ctx, idx.Index-1)
		if err != nil {
			continue
		}
		pset, err := bk.BridgeValsetByTimestampMap.Get(v.ctx, pts.Timestamp)
		if err != nil {
			continue
		}
		params, err := bk.ValidatorCheckpointParamsMap.Get(v.ctx, ts)
		if err != nil {
			continue
		}
		ps := toEvmSet(pset)
		for j := range slots {
			if j < len(old) && bytes.Equal(old[j], slots[j]) {
				continue
			}
			if len(slots[j]) == 0 {
				continue
			}
			o.count("valset_signature_slots_checked")
			// the sender: an injected entry (operator, ts, sig) with exactly these bytes
			// the sender: an injected entry (operator, ts, sig) with exactly these bytes; several validators may have
			// sent identical bytes (a Byzantine validator replaying another's public extension), so the slot is
			// rightly written if ANY of those senders owns it
			var sender string
			if haveInj {
				for i, op := range inj.ValsetSigs.OperatorAddresses {
					if i < len(inj.ValsetSigs.Timestamps) && i < len(inj.ValsetSigs.Signatures) && uint64(inj.ValsetSigs.Timestamps[i]) == ts && inj.ValsetSigs.Signatures[i] == hex.EncodeToString(slots[j]) {
						if sender == "" || (j < len(ps) && bytes.Equal(curEVM[op], ps[j].Addr)) {
							sender = op
						}
					}
				}
			}
			if sender == "" {
				out = append(out, o.v(b.H, "state", "BridgeValsetSignaturesMap", "slot-written-without-injected-signature", "checkpoint %d slot %d changed in block %d but the accepted proposal carries no such signature", ts, j, b.H))
				continue
			}
			if j >= len(ps) || !bytes.Equal(curEVM[sender], ps[j].Addr) {
				out = append(out, o.v(b.H, "state", "BridgeValsetSignaturesMap", "signature-in-foreign-slot", "checkpoint %d: signature sent by %s (evm %x) landed in slot %d, which belongs to another member of the previous set %v; injected valset sigs: %v %v", ts, sender, curEVM[sender], j, fmtSet(ps), inj.ValsetSigs.OperatorAddresses, inj.ValsetSigs.Timestamps))
				continue
			}
			if _, ok := RelayerSig(slots[j], params.Checkpoint, ps[j].Addr); !ok {
				o.count("valset_slots_with_unverifiable_signature(observation)")
			}
		}
	}

	// ---- attestation slots
	for snap, slots := range curAtt {
		old, existed := o.prevAtt[snap]
		if !existed {
			// The slot array is sized from the saved bridge set at creation time: for snapshots requested by a
			// transaction that is the set saved before this block, for end-of-block snapshots the set saved now.
			// When the two differ and the origin cannot be told from the length, the snapshot is not judged.
			fromTx := false
			if d, err := bk.AttestSnapshotDataMap.Get(v.ctx, []byte(snap)); err == nil {
				for i, tr := range b.Txs {
					in := c.IntentOfTx(b, i)
					if in == nil || tr.Code != 0 {
						continue
					}
					for _, m := range in.Msgs {
						if m.K == "request_attestations" && m.V == fmt.Sprint(d.Timestamp) && strings.EqualFold(strings.TrimPrefix(m.S, "0x"), hex.EncodeToString(d.QueryId)) {
							fromTx = true
						}
					}
				}
			}
			set := saved
			if fromTx {
				set = o.prevSaved
			}
			if len(set) != len(slots) {
				set = nil
			}
			o.sizedFrom[snap] = set
			continue
		}
		set := o.sizedFrom[snap]
		for j := range slots {
			if j < len(old) && bytes.Equal(old[j], slots[j]) {
				continue
			}
			if len(slots[j]) == 0 {
				continue
			}
			o.count("attestation_slots_checked")
			var sender string
			if haveInj {
				for i, op := range inj.OracleAttestations.OperatorAddresses {
					if i < len(inj.OracleAttestations.Snapshots) && i < len(inj.OracleAttestations.Attestations) && string(inj.OracleAttestations.Snapshots[i]) == snap && bytes.Equal(inj.OracleAttestations.Attestations[i], slots[j]) {
						if sender == "" || (set != nil && j < len(set) && bytes.Equal(curEVM[op], set[j].Addr)) {
							sender = op
						}
					}
				}
			}
			if sender == "" {
				out = append(out, o.v(b.H, "state", "SnapshotToAttestationsMap", "slot-written-without-injected-attestation", "snapshot %x slot %d changed in block %d but the accepted proposal carries no such attestation", []byte(snap)[:4], j, b.H))
				continue
			}
			if set == nil || len(set) != len(slots) {
				continue // the set the array was sized from is unknown (snapshot older than this oracle's view)
			}
			if j >= len(set) || !bytes.Equal(curEVM[sender], set[j].Addr) {
				cls := "attestation-in-foreign-slot"
				// diagnosis: the slot is the sender's position in the set saved NOW (a checkpoint update happened
				// between the snapshot's creation and the arrival of the attestation)
				// (PreBlocker runs at the start of the block: the set saved at the end of the previous block)
				if j < len(o.prevSaved) && bytes.Equal(curEVM[sender], o.prevSaved[j].Addr) && !sameSet(o.prevSaved, set) {
					cls += ":indexed-by-current-set-after-checkpoint-update"
				}
				out = append(out, o.v(b.H, "state", "SnapshotToAttestationsMap", cls, "snapshot %x: attestation sent by %s (evm %x) landed in slot %d of a slot array sized from the set %v (set saved when the attestation arrived: %v), where that slot belongs to another member", []byte(snap)[:4], sender, curEVM[sender][:3], j, fmtSet(set), fmtSet(o.prevSaved)))
			}
		}
	}
	return out
}

func (o *OracleC17) End(c *Chain) []*Violation { return nil }
