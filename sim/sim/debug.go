package sim

import (
	"fmt"
	"os"

	reportertypes "github.com/tellor-io/layer/x/reporter/types"
)

// DebugState prints a human-readable summary of the committed state (triage aid).
func DebugState(c *Chain) {
	v := c.View()
	if v == nil {
		for _, n := range c.Nodes {
			if n.Up && n.App != nil {
				v = c.ViewOf(n)
				break
			}
		}
	}
	if v == nil {
		return
	}
	fmt.Printf("height=%d time=%s supply=%s\n", v.n.Height(), c.LastTime, v.Supply())
	for _, m := range []string{"oracle", "dispute", "bridge", "tips_escrow_pool", "time_based_rewards", "bonded_tokens_pool", "not_bonded_tokens_pool", "mint", "fee_collector", "distribution"} {
		fmt.Printf("  %-24s %s\n", m, v.ModuleBalance(m))
	}
	for _, val := range v.Validators() {
		fmt.Printf("  validator %s status=%s tokens=%s shares=%s jailed=%v\n", val.OperatorAddress[len(val.OperatorAddress)-6:], val.Status, val.Tokens, val.DelegatorShares, val.Jailed)
	}
	for _, d := range v.Disputes() {
		fmt.Printf("  dispute %d round=%d status=%s open=%v pending=%v slash=%s burn=%s feeTotal=%s end=%s reporter=%s power=%d", d.D.DisputeId, d.D.DisputeRound, d.D.DisputeStatus, d.D.Open, d.D.PendingExecution, d.D.SlashAmount, d.D.BurnAmount, d.D.FeeTotal, d.D.DisputeEndTime, d.D.InitialEvidence.Reporter[len(d.D.InitialEvidence.Reporter)-6:], d.D.InitialEvidence.Power)
		if d.V != nil {
			fmt.Printf(" vote: result=%s end=%s executed=%v", d.V.VoteResult, d.V.VoteEnd, d.V.Executed)
		}
		fmt.Println()
	}
	_ = v.n.App.ReporterKeeper.DisputedDelegationAmounts.Walk(v.ctx, nil, func(k []byte, d reportertypes.DelegationsAmounts) (bool, error) {
		fmt.Printf("  escrow %x total=%s origins=%d\n", k[:4], d.Total, len(d.TokenOrigins))
		for _, t := range d.TokenOrigins {
			fmt.Printf("     del=%x val=%x amt=%s\n", t.DelegatorAddress[:4], t.ValidatorAddress[:4], t.Amount)
		}
		return false, nil
	})
	if w := os.Getenv("LAYERSIM_WATCH"); w != "" {
		var idx int
		fmt.Sscanf(w, "%d", &idx)
		if idx >= 0 && idx < len(c.Accounts.Actors) {
			a := c.Accounts.Actors[idx]
			fmt.Printf("  watch actor %d %s balance=%s\n", idx, a.Addr, v.Balance(a.Addr))
			for _, d := range v.Delegations(a.Addr) {
				fmt.Printf("     delegation val=%s shares=%s\n", d.ValidatorAddress[len(d.ValidatorAddress)-6:], d.Shares)
			}
			ubds, _ := v.n.App.StakingKeeper.GetAllUnbondingDelegations(v.ctx, a.Addr)
			for _, u := range ubds {
				for _, e := range u.Entries {
					fmt.Printf("     unbonding val=%s balance=%s\n", u.ValidatorAddress[len(u.ValidatorAddress)-6:], e.Balance)
				}
			}
		}
	}
	for _, p := range v.FeePayers() {
		fmt.Printf("  payer dispute=%d %s amount=%s fromBond=%v\n", p.ID, p.Payer.String()[len(p.Payer.String())-6:], p.Info.Amount, p.Info.FromBond)
	}
}
