package sim

import (
	"encoding/json"
	"fmt"
	"time"

	cmted "github.com/cometbft/cometbft/crypto/ed25519"
	cmtproto "github.com/cometbft/cometbft/proto/tendermint/types"
	cmttypes "github.com/cometbft/cometbft/types"
	"github.com/tellor-io/layer/app"
	bridgetypes "github.com/tellor-io/layer/x/bridge/types"
	disputetypes "github.com/tellor-io/layer/x/dispute/types"
	oracletypes "github.com/tellor-io/layer/x/oracle/types"
	registrytypes "github.com/tellor-io/layer/x/registry/types"
	reportertypes "github.com/tellor-io/layer/x/reporter/types"

	"cosmossdk.io/math"

	codectypes "github.com/cosmos/cosmos-sdk/codec/types"
	cryptocodec "github.com/cosmos/cosmos-sdk/crypto/codec"
	"github.com/cosmos/cosmos-sdk/crypto/keys/secp256k1"
	simtestutil "github.com/cosmos/cosmos-sdk/testutil/sims"
	sdk "github.com/cosmos/cosmos-sdk/types"
	authtypes "github.com/cosmos/cosmos-sdk/x/auth/types"
	banktypes "github.com/cosmos/cosmos-sdk/x/bank/types"
	govv1 "github.com/cosmos/cosmos-sdk/x/gov/types/v1"
	slashingtypes "github.com/cosmos/cosmos-sdk/x/slashing/types"
	stakingtypes "github.com/cosmos/cosmos-sdk/x/staking/types"
)

const Denom = "loya"

// GenesisCfg is the drawn configuration of one run. It is recorded verbatim in the trace.
type GenesisCfg struct {
	ChainID            string          `json:"chain_id"`
	GenesisUnix        int64           `json:"genesis_unix"`
	ValStakes          []int64         `json:"val_stakes"` // loya self-delegated by each genesis validator
	Candidates         int             `json:"candidates"` // extra nodes with consensus keys that may become validators later
	Witnesses          int             `json:"witnesses"`  // non-validating full nodes
	AcctBalances       []int64         `json:"acct_bal"`   // liquid loya per plain account
	GenDelegations     []GenDelegation `json:"gen_delegations"`
	MaxValidators      uint32          `json:"max_validators"`
	UnbondingSec       int64           `json:"unbonding_sec"`
	MinTrb             int64           `json:"min_trb"`
	MaxSelectors       uint64          `json:"max_selectors"`
	MinStakeAmount     int64           `json:"min_stake_amount"`
	MaxReportWindow    uint64          `json:"max_report_window"`
	SpotWindow         uint64          `json:"spot_window"`
	CycleList          [][2]string     `json:"cycle_list"` // (asset, currency) pairs of spotprice queries
	GovVotingSec       int64           `json:"gov_voting_sec"`
	SignedBlocksWindow int64           `json:"signed_blocks_window"`
	DowntimeJailSec    int64           `json:"downtime_jail_sec"`
	SlashDowntimePct   int64           `json:"slash_downtime_pct,omitempty"` // 0 = SDK slashing burns nothing (the default assumption)
	SnapshotLimit      uint64          `json:"snapshot_limit"`
	TeamAcct           int             `json:"team_acct"`
	Twins              []int           `json:"twins,omitempty"` // plain accounts with identical balances reserved for exact vote ties
	KeyringShipped     bool            `json:"keyring_shipped"` // use the shipped viper+file keyring path instead of hook H1
	NodeCfgs           []NodeCfg       `json:"node_cfgs"`
}

type GenDelegation struct {
	Acct   int   `json:"acct"`
	Val    int   `json:"val"`
	Amount int64 `json:"amount"`
}

// NodeCfg is node-local configuration that must not influence the app hash.
type NodeCfg struct {
	Pruning       string `json:"pruning"` // "default", "nothing", "everything"
	IAVLCacheSize int    `json:"iavl_cache"`
	DisableFast   bool   `json:"iavl_disable_fast"`
	MinGasPrice   string `json:"min_gas_price"`
	InterBlock    bool   `json:"inter_block_cache"`
}

// Keys are derived from fixed secrets; nothing random outside the seed.
type Keys struct {
	ValCons []cmted.PrivKey      // consensus keys of all nodes that can validate (genesis validators then candidates)
	ValOp   []*secp256k1.PrivKey // operator keys of the same nodes
	Acct    []*secp256k1.PrivKey // plain accounts
}

func DeriveKeys(cfg *GenesisCfg) *Keys {
	k := &Keys{}
	nv := len(cfg.ValStakes) + cfg.Candidates
	for i := 0; i < nv; i++ {
		k.ValCons = append(k.ValCons, cmted.GenPrivKeyFromSecret([]byte(fmt.Sprintf("layersim-cons-%d", i))))
		k.ValOp = append(k.ValOp, secp256k1.GenPrivKeyFromSecret([]byte(fmt.Sprintf("layersim-op-%d", i))))
	}
	for i := range cfg.AcctBalances {
		k.Acct = append(k.Acct, secp256k1.GenPrivKeyFromSecret([]byte(fmt.Sprintf("layersim-acct-%d", i))))
	}
	return k
}

func AccAddr(pk *secp256k1.PrivKey) sdk.AccAddress { return sdk.AccAddress(pk.PubKey().Address()) }
func ValAddr(pk *secp256k1.PrivKey) sdk.ValAddress { return sdk.ValAddress(pk.PubKey().Address()) }

func ConsensusParams() *cmtproto.ConsensusParams {
	cp := *simtestutil.DefaultConsensusParams
	cp.Abci = &cmtproto.ABCIParams{VoteExtensionsEnableHeight: 1}
	return &cp
}

// BuildGenesis produces the app state bytes for InitChain.
func BuildGenesis(a *app.App, cfg *GenesisCfg, keys *Keys) ([]byte, error) {
	cdc := a.AppCodec()
	gen := a.BasicModuleManager.DefaultGenesis(cdc)

	var validators []stakingtypes.Validator
	var delegations []stakingtypes.Delegation
	var accs []authtypes.GenesisAccount
	var bals []banktypes.Balance
	nGen := len(cfg.ValStakes)

	valTokens := make([]math.Int, nGen)
	for i := 0; i < nGen; i++ {
		valTokens[i] = math.NewInt(cfg.ValStakes[i])
	}
	for _, d := range cfg.GenDelegations {
		valTokens[d.Val] = valTokens[d.Val].Add(math.NewInt(d.Amount))
	}
	for i := 0; i < nGen; i++ {
		cpk := cmttypes.NewValidator(keys.ValCons[i].PubKey(), 1)
		pk, err := cryptocodec.FromCmtPubKeyInterface(cpk.PubKey)
		if err != nil {
			return nil, err
		}
		pkAny, err := codectypes.NewAnyWithValue(pk)
		if err != nil {
			return nil, err
		}
		opAddr := AccAddr(keys.ValOp[i])
		v := stakingtypes.Validator{
			OperatorAddress: sdk.ValAddress(opAddr).String(), ConsensusPubkey: pkAny,
			Status: stakingtypes.Bonded, Tokens: valTokens[i], DelegatorShares: math.LegacyNewDecFromInt(valTokens[i]),
			UnbondingTime:     time.Unix(0, 0).UTC(),
			Commission:        stakingtypes.NewCommission(math.LegacyZeroDec(), math.LegacyZeroDec(), math.LegacyZeroDec()),
			MinSelfDelegation: math.ZeroInt(),
			Description:       stakingtypes.Description{Moniker: fmt.Sprintf("val%d", i)},
		}
		validators = append(validators, v)
		delegations = append(delegations, stakingtypes.NewDelegation(opAddr.String(), sdk.ValAddress(opAddr).String(), math.LegacyNewDecFromInt(math.NewInt(cfg.ValStakes[i]))))
	}
	// operator accounts (genesis validators and candidates) get some liquid balance for fees / later self-delegation
	for i := range keys.ValOp {
		opAddr := AccAddr(keys.ValOp[i])
		accs = append(accs, authtypes.NewBaseAccount(opAddr, keys.ValOp[i].PubKey(), 0, 0))
		bals = append(bals, banktypes.Balance{Address: opAddr.String(), Coins: sdk.NewCoins(sdk.NewCoin(Denom, math.NewInt(50_000_000_000)))})
	}
	for i, pk := range keys.Acct {
		addr := AccAddr(pk)
		accs = append(accs, authtypes.NewBaseAccount(addr, pk.PubKey(), 0, 0))
		if cfg.AcctBalances[i] > 0 {
			bals = append(bals, banktypes.Balance{Address: addr.String(), Coins: sdk.NewCoins(sdk.NewCoin(Denom, math.NewInt(cfg.AcctBalances[i])))})
		}
	}
	for _, d := range cfg.GenDelegations {
		addr := AccAddr(keys.Acct[d.Acct])
		delegations = append(delegations, stakingtypes.NewDelegation(addr.String(), ValAddr(keys.ValOp[d.Val]).String(), math.LegacyNewDecFromInt(math.NewInt(d.Amount))))
	}

	// slashing: signing infos are required or block 2 fails
	var sg slashingtypes.GenesisState
	cdc.MustUnmarshalJSON(gen[slashingtypes.ModuleName], &sg)
	for i := 0; i < nGen; i++ {
		ca := sdk.ConsAddress(keys.ValCons[i].PubKey().Address())
		sg.SigningInfos = append(sg.SigningInfos, slashingtypes.SigningInfo{Address: ca.String(), ValidatorSigningInfo: slashingtypes.NewValidatorSigningInfo(ca, 0, 0, time.Unix(0, 0), false, 0)})
	}
	sg.Params.SignedBlocksWindow = cfg.SignedBlocksWindow
	sg.Params.MinSignedPerWindow = math.LegacyNewDecWithPrec(5, 1)
	sg.Params.DowntimeJailDuration = time.Duration(cfg.DowntimeJailSec) * time.Second
	// assumption (DESIGN §4): SDK slashing burns are configured off so that only Layer's own supply events remain
	sg.Params.SlashFractionDowntime = math.LegacyNewDecWithPrec(cfg.SlashDowntimePct, 2)
	sg.Params.SlashFractionDoubleSign = math.LegacyZeroDec()
	gen[slashingtypes.ModuleName] = cdc.MustMarshalJSON(&sg)

	gen[authtypes.ModuleName] = cdc.MustMarshalJSON(authtypes.NewGenesisState(authtypes.DefaultParams(), accs))

	sp := stakingtypes.DefaultParams()
	sp.BondDenom = Denom
	sp.MaxValidators = cfg.MaxValidators
	sp.UnbondingTime = time.Duration(cfg.UnbondingSec) * time.Second
	gen[stakingtypes.ModuleName] = cdc.MustMarshalJSON(stakingtypes.NewGenesisState(sp, validators, delegations))

	total := sdk.NewCoins()
	for _, b := range bals {
		total = total.Add(b.Coins...)
	}
	poolAmt := math.ZeroInt()
	for _, v := range validators {
		poolAmt = poolAmt.Add(v.Tokens)
	}
	pool := sdk.NewCoin(Denom, poolAmt)
	total = total.Add(pool)
	bals = append(bals, banktypes.Balance{Address: authtypes.NewModuleAddress(stakingtypes.BondedPoolName).String(), Coins: sdk.NewCoins(pool)})
	var bg banktypes.GenesisState
	cdc.MustUnmarshalJSON(gen[banktypes.ModuleName], &bg)
	bg.Balances = bals
	bg.Supply = total
	gen[banktypes.ModuleName] = cdc.MustMarshalJSON(&bg)

	// gov: short voting period, no burns (assumption listed in DESIGN §4)
	var gg govv1.GenesisState
	cdc.MustUnmarshalJSON(gen["gov"], &gg)
	vp := time.Duration(cfg.GovVotingSec) * time.Second
	evp := vp / 2
	gg.Params.VotingPeriod = &vp
	gg.Params.ExpeditedVotingPeriod = &evp
	md := 2 * vp
	gg.Params.MaxDepositPeriod = &md
	gg.Params.BurnVoteQuorum = false
	gg.Params.BurnVoteVeto = false
	gg.Params.BurnProposalDepositPrevote = false
	gen["gov"] = cdc.MustMarshalJSON(&gg)

	// reporter
	var rg reportertypes.GenesisState
	cdc.MustUnmarshalJSON(gen[reportertypes.ModuleName], &rg)
	rg.Params.MinTrb = math.NewInt(cfg.MinTrb)
	rg.Params.MaxSelectors = cfg.MaxSelectors
	gen[reportertypes.ModuleName] = cdc.MustMarshalJSON(&rg)

	// oracle
	var og oracletypes.GenesisState
	cdc.MustUnmarshalJSON(gen[oracletypes.ModuleName], &og)
	og.Params.MinStakeAmount = math.NewInt(cfg.MinStakeAmount)
	og.Cyclelist = nil
	for _, p := range cfg.CycleList {
		qd, err := SpotQueryData(p[0], p[1])
		if err != nil {
			return nil, err
		}
		og.Cyclelist = append(og.Cyclelist, qd)
	}
	gen[oracletypes.ModuleName] = cdc.MustMarshalJSON(&og)

	// registry
	var rgg registrytypes.GenesisState
	cdc.MustUnmarshalJSON(gen[registrytypes.ModuleName], &rgg)
	rgg.Params.MaxReportBufferWindow = cfg.MaxReportWindow
	rgg.Dataspec.ReportBlockWindow = cfg.SpotWindow
	gen[registrytypes.ModuleName] = cdc.MustMarshalJSON(&rgg)

	// dispute: team address
	var dg disputetypes.GenesisState
	cdc.MustUnmarshalJSON(gen[disputetypes.ModuleName], &dg)
	dg.Params.TeamAddress = AccAddr(keys.Acct[cfg.TeamAcct])
	gen[disputetypes.ModuleName] = cdc.MustMarshalJSON(&dg)

	// bridge
	var bgg bridgetypes.GenesisState
	cdc.MustUnmarshalJSON(gen[bridgetypes.ModuleName], &bgg)
	bgg.SnapshotLimit = cfg.SnapshotLimit
	gen[bridgetypes.ModuleName] = cdc.MustMarshalJSON(&bgg)

	return json.Marshal(gen)
}
