package sim

import (
	"sync/atomic"

	dbm "github.com/cosmos/cosmos-db"
)

// simDB is what a node's application sees of its durable image: cosmos-db's MemDB, except that an iterator takes a
// snapshot of its range when it is created instead of holding the store's read lock until it is closed.
//
// MemDB's own iterator is fed by a goroutine that keeps the read lock for as long as more than 64 entries are
// pending. Application code that never closes such an iterator (harmless on the disk-backed stores real nodes use:
// a leaked handle) would then dead-lock the node's next Commit — an artefact of the in-memory stand-in, not a
// behaviour of the chain. The snapshot has the same contents MemDB's iterator would deliver (MemDB admits no write
// while an iterator is open). Iterators that are never closed are counted (Stats: db_iterators_never_closed).
type simDB struct {
	*dbm.MemDB
	opened, closed *atomic.Int64
}

func newSimDB(m *dbm.MemDB) simDB {
	return simDB{MemDB: m, opened: new(atomic.Int64), closed: new(atomic.Int64)}
}

func (d simDB) snapshot(it dbm.Iterator, err error, start, end []byte) (dbm.Iterator, error) {
	if err != nil {
		return nil, err
	}
	s := &sliceIter{start: start, end: end, db: d}
	for ; it.Valid(); it.Next() {
		s.keys = append(s.keys, append([]byte{}, it.Key()...))
		s.vals = append(s.vals, append([]byte{}, it.Value()...))
	}
	if e := it.Error(); e != nil {
		it.Close()
		return nil, e
	}
	if e := it.Close(); e != nil {
		return nil, e
	}
	d.opened.Add(1)
	return s, nil
}

func (d simDB) Iterator(start, end []byte) (dbm.Iterator, error) {
	it, err := d.MemDB.Iterator(start, end)
	return d.snapshot(it, err, start, end)
}

func (d simDB) ReverseIterator(start, end []byte) (dbm.Iterator, error) {
	it, err := d.MemDB.ReverseIterator(start, end)
	return d.snapshot(it, err, start, end)
}

// NeverClosed: iterators handed out and not (yet) closed.
func (d simDB) NeverClosed() int64 { return d.opened.Load() - d.closed.Load() }

type sliceIter struct {
	keys, vals [][]byte
	i          int
	start, end []byte
	db         simDB
	done       bool
}

func (s *sliceIter) Domain() ([]byte, []byte) { return s.start, s.end }
func (s *sliceIter) Valid() bool              { return !s.done && s.i < len(s.keys) }
func (s *sliceIter) Next() {
	if !s.Valid() {
		panic("iterator is invalid")
	}
	s.i++
}

func (s *sliceIter) Key() []byte {
	if !s.Valid() {
		panic("iterator is invalid")
	}
	return s.keys[s.i]
}

func (s *sliceIter) Value() []byte {
	if !s.Valid() {
		panic("iterator is invalid")
	}
	return s.vals[s.i]
}
func (s *sliceIter) Error() error { return nil }
func (s *sliceIter) Close() error {
	if !s.done {
		s.done = true
		s.db.closed.Add(1)
	}
	return nil
}
