package sim

import (
	"context"
	"encoding/hex"
	"fmt"
	"math/big"
	"strings"
	"time"

	abci "github.com/cometbft/cometbft/abci/types"
	bridgetypes "github.com/tellor-io/layer/x/bridge/types"
	disputetypes "github.com/tellor-io/layer/x/dispute/types"
	minttypes "github.com/tellor-io/layer/x/mint/types"
	oracletypes "github.com/tellor-io/layer/x/oracle/types"
	registrytypes "github.com/tellor-io/layer/x/registry/types"
	reportertypes "github.com/tellor-io/layer/x/reporter/types"

	"cosmossdk.io/math"

	cmttypes "github.com/cometbft/cometbft/types"
	clienttx "github.com/cosmos/cosmos-sdk/client/tx"
	codectypes "github.com/cosmos/cosmos-sdk/codec/types"
	cryptocodec "github.com/cosmos/cosmos-sdk/crypto/codec"
	"github.com/cosmos/cosmos-sdk/crypto/keys/secp256k1"
	sdk "github.com/cosmos/cosmos-sdk/types"
	"github.com/cosmos/cosmos-sdk/types/tx/signing"
	authsigning "github.com/cosmos/cosmos-sdk/x/auth/signing"
	authtypes "github.com/cosmos/cosmos-sdk/x/auth/types"
	"github.com/cosmos/cosmos-sdk/x/authz"
	banktypes "github.com/cosmos/cosmos-sdk/x/bank/types"
	govv1 "github.com/cosmos/cosmos-sdk/x/gov/types/v1"
	slashingtypes "github.com/cosmos/cosmos-sdk/x/slashing/types"
	stakingtypes "github.com/cosmos/cosmos-sdk/x/staking/types"
)

// ReportSpec is a concrete micro-report as placed in dispute messages.
type ReportSpec struct {
	Reporter  int    `json:"reporter"` // actor
	Power     uint64 `json:"power"`
	QueryType string `json:"query_type"`
	Q         string `json:"q"`
	Method    string `json:"method"`
	Value     string `json:"value"`
	TimeMs    int64  `json:"time_ms"` // unix ms (+ nanos below)
	TimeNs    int64  `json:"time_ns"`
	Cyclelist bool   `json:"cyclelist"`
	Block     uint64 `json:"block"`
}

type SpecSpec struct {
	ValueType string   `json:"value_type"`
	Method    string   `json:"method"`
	Window    uint64   `json:"window"`
	Fields    []string `json:"fields,omitempty"` // abi component types; names f0,f1..
}

// MsgSpec is a concrete, PRNG-free description of one message.
type MsgSpec struct {
	K     string       `json:"k"`
	As    *int         `json:"as,omitempty"` // actor placed in the message's signer field (default: the tx signer)
	Q     string       `json:"q,omitempty"`
	V     string       `json:"v,omitempty"`
	N     string       `json:"n,omitempty"`
	N2    string       `json:"n2,omitempty"`
	U     uint64       `json:"u,omitempty"`
	Ids   []uint64     `json:"ids,omitempty"`
	Ids2  []uint64     `json:"ids2,omitempty"`
	T     int          `json:"t,omitempty"`
	Val   int          `json:"val,omitempty"`
	Val2  int          `json:"val2,omitempty"`
	B     bool         `json:"b,omitempty"`
	E     int32        `json:"e,omitempty"`
	S     string       `json:"s,omitempty"`
	Rep   *ReportSpec  `json:"rep,omitempty"`
	Reps  []ReportSpec `json:"reps,omitempty"`
	Spec  *SpecSpec    `json:"spec,omitempty"`
	Inner []MsgSpec    `json:"inner,omitempty"`
	Qs    []string     `json:"qs,omitempty"`
}

// Intent is one transaction a simulated client wants to send.
type Intent struct {
	ID       int       `json:"id"`
	Actor    int       `json:"actor"`
	Msgs     []MsgSpec `json:"msgs"`
	Gas      uint64    `json:"gas"`
	FeeLoya  int64     `json:"fee"`                 // -1 = derive from gas at the global minimum price
	SeqDelta int       `json:"seq_delta,omitempty"` // stale / future sequence tests
	Follow   bool      `json:"follow,omitempty"`    // second transaction of an account in one block (sent with the next sequence while the first is in flight)
	Note     string    `json:"note,omitempty"`
}

type Actor struct {
	Idx      int
	Priv     *secp256k1.PrivKey
	Addr     sdk.AccAddress
	IsOp     bool
	ConsIdx  int // for operators
	accNum   int64
	Inflight *inflight
}

type inflight struct {
	bytes    []byte
	intentID int
	height   int64
}

type Accounts struct {
	c      *Chain
	Actors []*Actor
	// Outcome of every intent that reached a block: intent id -> record
	Outcomes map[int]*TxRecord
	// CheckTx verdicts: intent id -> node -> code
	Check   map[int]map[int]uint32
	Intents map[int]*Intent
}

func newAccounts(c *Chain) *Accounts {
	a := &Accounts{c: c, Outcomes: map[int]*TxRecord{}, Check: map[int]map[int]uint32{}, Intents: map[int]*Intent{}}
	for i, pk := range c.Keys.ValOp {
		a.Actors = append(a.Actors, &Actor{Idx: len(a.Actors), Priv: pk, Addr: AccAddr(pk), IsOp: true, ConsIdx: i, accNum: -1})
	}
	for _, pk := range c.Keys.Acct {
		a.Actors = append(a.Actors, &Actor{Idx: len(a.Actors), Priv: pk, Addr: AccAddr(pk), ConsIdx: -1, accNum: -1})
	}
	return a
}

func (a *Accounts) NumOps() int { return len(a.c.Keys.ValOp) }

// ActorOfAcct maps a plain-account index to its actor index.
func (a *Accounts) ActorOfAcct(i int) int { return a.NumOps() + i }

func (a *Accounts) Addr(actor int) sdk.AccAddress {
	if actor < 0 || actor >= len(a.Actors) {
		// a deliberately foreign address
		return sdk.AccAddress(Keccak([]byte(fmt.Sprintf("foreign-%d", actor)))[:20])
	}
	return a.Actors[actor].Addr
}

func (a *Accounts) ActorByAddr(addr []byte) int {
	for _, x := range a.Actors {
		if string(x.Addr) == string(addr) {
			return x.Idx
		}
	}
	return -1
}

func (a *Accounts) ValAddrOf(consIdx int) sdk.ValAddress {
	if consIdx < 0 || consIdx >= len(a.c.Keys.ValOp) {
		return sdk.ValAddress(Keccak([]byte(fmt.Sprintf("foreign-val-%d", consIdx)))[:20])
	}
	return ValAddr(a.c.Keys.ValOp[consIdx])
}

func GovAddr() sdk.AccAddress { return authtypes.NewModuleAddress("gov") }

func parseInt(s string) math.Int {
	if s == "" {
		return math.ZeroInt()
	}
	b, ok := new(big.Int).SetString(s, 10)
	if !ok {
		return math.ZeroInt()
	}
	return math.NewIntFromBigInt(b)
}

func coin(s string) sdk.Coin {
	// sdk.NewCoin panics on negative; build the struct directly so malformed amounts reach the chain
	return sdk.Coin{Denom: Denom, Amount: parseInt(s)}
}

// QueryDataOf resolves a query name to query-data bytes.
//
//	spot:<asset>/<cur>   dep:<id>   wd:<id>   typ:<QueryType>:<hexargs>   raw:<hex>
func QueryDataOf(q string) []byte {
	switch {
	case strings.HasPrefix(q, "spot:"):
		p := strings.SplitN(q[5:], "/", 2)
		if len(p) != 2 {
			return nil
		}
		qd, _ := SpotQueryData(p[0], p[1])
		return qd
	case strings.HasPrefix(q, "dep:"):
		var id uint64
		fmt.Sscanf(q[4:], "%d", &id)
		return BridgeQueryData(true, id)
	case strings.HasPrefix(q, "wd:"):
		var id uint64
		fmt.Sscanf(q[3:], "%d", &id)
		return BridgeQueryData(false, id)
	case strings.HasPrefix(q, "typ:"):
		p := strings.SplitN(q[4:], ":", 2)
		if len(p) != 2 {
			return nil
		}
		args, _ := hex.DecodeString(p[1])
		return QueryData(p[0], args)
	case strings.HasPrefix(q, "raw:"):
		b, _ := hex.DecodeString(q[4:])
		return b
	}
	return nil
}

func (a *Accounts) microReport(r *ReportSpec) *oracletypes.MicroReport {
	qd := QueryDataOf(r.Q)
	return &oracletypes.MicroReport{
		Reporter: a.Addr(r.Reporter).String(), Power: r.Power, QueryType: r.QueryType, QueryId: QueryID(qd),
		AggregateMethod: r.Method, Value: r.Value, Timestamp: time.Unix(0, r.TimeNs).UTC(), Cyclelist: r.Cyclelist, BlockNumber: r.Block,
	}
}

func (s *SpecSpec) dataSpec() registrytypes.DataSpec {
	ds := registrytypes.DataSpec{ResponseValueType: s.ValueType, AggregationMethod: s.Method, ReportBlockWindow: s.Window}
	for i, f := range s.Fields {
		ds.AbiComponents = append(ds.AbiComponents, &registrytypes.ABIComponent{Name: fmt.Sprintf("f%d", i), FieldType: f})
	}
	return ds
}

// ToMsg converts a MsgSpec into the real SDK message.
func (a *Accounts) ToMsg(signer int, m *MsgSpec) (sdk.Msg, error) {
	who := signer
	if m.As != nil {
		who = *m.As
	}
	me := a.Addr(who).String()
	switch m.K {
	case "tip":
		return &oracletypes.MsgTip{Tipper: me, QueryData: QueryDataOf(m.Q), Amount: coin(m.N)}, nil
	case "submit_value":
		return &oracletypes.MsgSubmitValue{Creator: me, QueryData: QueryDataOf(m.Q), Value: m.V}, nil
	case "create_reporter":
		cr, err := math.LegacyNewDecFromStr(m.V)
		if err != nil {
			return nil, err
		}
		return &reportertypes.MsgCreateReporter{ReporterAddress: me, CommissionRate: cr, MinTokensRequired: parseInt(m.N)}, nil
	case "select_reporter":
		return &reportertypes.MsgSelectReporter{SelectorAddress: me, ReporterAddress: a.Addr(m.T).String()}, nil
	case "switch_reporter":
		return &reportertypes.MsgSwitchReporter{SelectorAddress: me, ReporterAddress: a.Addr(m.T).String()}, nil
	case "remove_selector":
		return &reportertypes.MsgRemoveSelector{AnyAddress: me, SelectorAddress: a.Addr(m.T).String()}, nil
	case "unjail_reporter":
		return &reportertypes.MsgUnjailReporter{ReporterAddress: me}, nil
	case "withdraw_tip":
		return &reportertypes.MsgWithdrawTip{SelectorAddress: me, ValidatorAddress: a.ValAddrOf(m.Val).String()}, nil
	case "propose_dispute":
		return &disputetypes.MsgProposeDispute{Creator: me, Report: a.microReport(m.Rep), DisputeCategory: disputetypes.DisputeCategory(m.E), Fee: coin(m.N), PayFromBond: m.B}, nil
	case "add_fee":
		return &disputetypes.MsgAddFeeToDispute{Creator: me, DisputeId: m.U, Amount: coin(m.N), PayFromBond: m.B}, nil
	case "vote":
		return &disputetypes.MsgVote{Voter: me, Id: m.U, Vote: disputetypes.VoteEnum(m.E)}, nil
	case "update_team":
		return &disputetypes.MsgUpdateTeam{CurrentTeamAddress: me, NewTeamAddress: a.Addr(m.T).String()}, nil
	case "withdraw_fee_refund":
		return &disputetypes.MsgWithdrawFeeRefund{CallerAddress: me, PayerAddress: a.Addr(m.T).String(), Id: m.U}, nil
	case "add_evidence":
		var reps []*oracletypes.MicroReport
		for i := range m.Reps {
			reps = append(reps, a.microReport(&m.Reps[i]))
		}
		return &disputetypes.MsgAddEvidence{CallerAddress: me, DisputeId: m.U, Reports: reps}, nil
	case "claim_reward":
		return &disputetypes.MsgClaimReward{CallerAddress: me, DisputeId: m.U}, nil
	case "request_attestations":
		return &bridgetypes.MsgRequestAttestations{Creator: me, QueryId: m.S, Timestamp: m.V}, nil
	case "withdraw_tokens":
		return &bridgetypes.MsgWithdrawTokens{Creator: me, Recipient: m.S, Amount: coin(m.N)}, nil
	case "claim_deposits":
		return &bridgetypes.MsgClaimDepositsRequest{Creator: me, DepositIds: m.Ids, Indices: m.Ids2}, nil
	case "register_spec":
		return &registrytypes.MsgRegisterSpec{Registrar: me, QueryType: m.S, Spec: m.Spec.dataSpec()}, nil
	// ---- privileged (authority = signer field unless wrapped in a gov proposal, where it is the gov module) ----
	case "update_snapshot_limit":
		return &bridgetypes.MsgUpdateSnapshotLimit{Authority: me, Limit: m.U}, nil
	case "mint_init":
		return &minttypes.MsgInit{Authority: me}, nil
	case "update_cyclelist":
		var qs [][]byte
		for _, q := range m.Qs {
			qs = append(qs, QueryDataOf(q))
		}
		return &oracletypes.MsgUpdateCyclelist{Authority: me, Cyclelist: qs}, nil
	case "oracle_update_params":
		return &oracletypes.MsgUpdateParams{Authority: me, Params: oracletypes.Params{MinStakeAmount: parseInt(m.N)}}, nil
	case "reporter_update_params":
		mc, _ := math.LegacyNewDecFromStr("0")
		return &reportertypes.MsgUpdateParams{Authority: me, Params: reportertypes.Params{MinCommissionRate: mc, MinTrb: parseInt(m.N), MaxSelectors: m.U}}, nil
	case "staking_update_params":
		sp := stakingtypes.DefaultParams()
		sp.BondDenom = Denom
		sp.MaxValidators = uint32(m.U)
		sp.UnbondingTime = time.Duration(a.c.Cfg.UnbondingSec) * time.Second
		return &stakingtypes.MsgUpdateParams{Authority: me, Params: sp}, nil
	case "update_dataspec":
		return &registrytypes.MsgUpdateDataSpec{Authority: me, QueryType: m.S, Spec: m.Spec.dataSpec()}, nil
	// ---- sdk messages ----
	case "send":
		return &banktypes.MsgSend{FromAddress: me, ToAddress: a.Addr(m.T).String(), Amount: sdk.Coins{coin(m.N)}}, nil
	case "delegate":
		return &stakingtypes.MsgDelegate{DelegatorAddress: me, ValidatorAddress: a.ValAddrOf(m.Val).String(), Amount: coin(m.N)}, nil
	case "undelegate":
		return &stakingtypes.MsgUndelegate{DelegatorAddress: me, ValidatorAddress: a.ValAddrOf(m.Val).String(), Amount: coin(m.N)}, nil
	case "redelegate":
		return &stakingtypes.MsgBeginRedelegate{DelegatorAddress: me, ValidatorSrcAddress: a.ValAddrOf(m.Val).String(), ValidatorDstAddress: a.ValAddrOf(m.Val2).String(), Amount: coin(m.N)}, nil
	case "cancel_unbonding":
		return &stakingtypes.MsgCancelUnbondingDelegation{DelegatorAddress: me, ValidatorAddress: a.ValAddrOf(m.Val).String(), Amount: coin(m.N), CreationHeight: int64(m.U)}, nil
	case "create_validator":
		// signer must be an operator actor with a consensus key
		ci := -1
		if who >= 0 && who < len(a.Actors) {
			ci = a.Actors[who].ConsIdx
		}
		if ci < 0 {
			return nil, fmt.Errorf("create_validator by non-operator")
		}
		cpk := cmttypes.NewValidator(a.c.Keys.ValCons[ci].PubKey(), 1)
		pk, err := cryptocodec.FromCmtPubKeyInterface(cpk.PubKey)
		if err != nil {
			return nil, err
		}
		pkAny, err := codectypes.NewAnyWithValue(pk)
		if err != nil {
			return nil, err
		}
		return &stakingtypes.MsgCreateValidator{
			Description:       stakingtypes.Description{Moniker: fmt.Sprintf("cand%d", ci)},
			Commission:        stakingtypes.CommissionRates{Rate: math.LegacyZeroDec(), MaxRate: math.LegacyOneDec(), MaxChangeRate: math.LegacyOneDec()},
			MinSelfDelegation: math.OneInt(), ValidatorAddress: sdk.ValAddress(a.Addr(who)).String(), Pubkey: pkAny, Value: coin(m.N),
		}, nil
	case "unjail_validator":
		return &slashingtypes.MsgUnjail{ValidatorAddr: sdk.ValAddress(a.Addr(who)).String()}, nil
	case "gov_submit":
		var anys []*codectypes.Any
		gov := -1000
		_ = gov
		for i := range m.Inner {
			in := m.Inner[i]
			var im sdk.Msg
			var err error
			if in.As == nil {
				// authority = gov module
				im, err = a.toMsgAuthority(&in, GovAddr().String())
			} else {
				im, err = a.ToMsg(signer, &in)
			}
			if err != nil {
				return nil, err
			}
			any, err := codectypes.NewAnyWithValue(im)
			if err != nil {
				return nil, err
			}
			anys = append(anys, any)
		}
		return &govv1.MsgSubmitProposal{Messages: anys, InitialDeposit: sdk.Coins{coin(m.N)}, Proposer: me, Title: "p", Summary: "s", Metadata: "", Expedited: m.B}, nil
	case "gov_vote":
		return &govv1.MsgVote{ProposalId: m.U, Voter: me, Option: govv1.VoteOption(m.E)}, nil
	case "gov_deposit":
		return &govv1.MsgDeposit{ProposalId: m.U, Depositor: me, Amount: sdk.Coins{coin(m.N)}}, nil
	case "authz_exec":
		var inner []sdk.Msg
		for i := range m.Inner {
			im, err := a.ToMsg(signer, &m.Inner[i])
			if err != nil {
				return nil, err
			}
			inner = append(inner, im)
		}
		ex := authz.NewMsgExec(a.Addr(who), inner)
		return &ex, nil
	}
	return nil, fmt.Errorf("unknown msg kind %q", m.K)
}

// toMsgAuthority builds a privileged message with the given authority string.
func (a *Accounts) toMsgAuthority(m *MsgSpec, authority string) (sdk.Msg, error) {
	msg, err := a.ToMsg(0, m)
	if err != nil {
		return nil, err
	}
	switch x := msg.(type) {
	case *bridgetypes.MsgUpdateSnapshotLimit:
		x.Authority = authority
	case *minttypes.MsgInit:
		x.Authority = authority
	case *oracletypes.MsgUpdateCyclelist:
		x.Authority = authority
	case *oracletypes.MsgUpdateParams:
		x.Authority = authority
	case *reportertypes.MsgUpdateParams:
		x.Authority = authority
	case *registrytypes.MsgUpdateDataSpec:
		x.Authority = authority
	case *stakingtypes.MsgUpdateParams:
		x.Authority = authority
	}
	return msg, nil
}

func (a *Accounts) accountInfo(actor *Actor) (accNum, seq uint64, ok bool) {
	ref := a.c.RefNode()
	if ref == nil {
		for _, n := range a.c.Nodes {
			if n.Up && n.App != nil {
				ref = n
				break
			}
		}
	}
	if ref == nil {
		return 0, 0, false
	}
	acc := ref.App.AccountKeeper.GetAccount(a.c.Ctx(ref), actor.Addr)
	if acc == nil {
		return 0, 0, false
	}
	return acc.GetAccountNumber(), acc.GetSequence(), true
}

// BuildTx signs the intent with the actor's current committed sequence.
func (a *Accounts) BuildTx(in *Intent) ([]byte, error) {
	if in.Actor < 0 || in.Actor >= len(a.Actors) {
		return nil, fmt.Errorf("no such actor")
	}
	actor := a.Actors[in.Actor]
	accNum, seq, ok := a.accountInfo(actor)
	if !ok {
		return nil, fmt.Errorf("account not on chain")
	}
	seq = uint64(int64(seq) + int64(in.SeqDelta))
	var msgs []sdk.Msg
	for i := range in.Msgs {
		m, err := a.ToMsg(in.Actor, &in.Msgs[i])
		if err != nil {
			return nil, err
		}
		msgs = append(msgs, m)
	}
	txCfg := a.c.cdcApp.TxConfig()
	b := txCfg.NewTxBuilder()
	if err := b.SetMsgs(msgs...); err != nil {
		return nil, err
	}
	gas := in.Gas
	if gas == 0 {
		gas = 600_000
	}
	b.SetGasLimit(gas)
	fee := in.FeeLoya
	if fee < 0 {
		fee = int64(gas)/100 + 1 // 0.01 loya per gas: enough for every node-local min-gas-price the swarm draws
	}
	b.SetFeeAmount(sdk.NewCoins(sdk.NewInt64Coin(Denom, fee)))
	mode := signing.SignMode_SIGN_MODE_DIRECT
	sig := signing.SignatureV2{PubKey: actor.Priv.PubKey(), Data: &signing.SingleSignatureData{SignMode: mode}, Sequence: seq}
	if err := b.SetSignatures(sig); err != nil {
		return nil, err
	}
	sd := authsigning.SignerData{ChainID: a.c.Cfg.ChainID, AccountNumber: accNum, Sequence: seq, PubKey: actor.Priv.PubKey(), Address: actor.Addr.String()}
	sig2, err := clienttx.SignWithPrivKey(context.Background(), mode, sd, b, actor.Priv, txCfg, seq)
	if err != nil {
		return nil, err
	}
	if err := b.SetSignatures(sig2); err != nil {
		return nil, err
	}
	return txCfg.TxEncoder()(b.GetTx())
}

func (a *Accounts) noteSubmitted(in *Intent, bz []byte, h int64) {
	cp := *in
	a.Intents[in.ID] = &cp
	if in.Actor >= 0 && in.Actor < len(a.Actors) {
		a.Actors[in.Actor].Inflight = &inflight{bytes: bz, intentID: in.ID, height: h}
	}
}

func (a *Accounts) noteCheckTx(in *Intent, node int, res *abci.ResponseCheckTx) {
	m := a.Check[in.ID]
	if m == nil {
		m = map[int]uint32{}
		a.Check[in.ID] = m
	}
	m[node] = res.Code
}

func (a *Accounts) noteBlock(h int64, txs [][]byte, recs []TxRecord) {
	for i := range recs {
		r := recs[i]
		if r.IntentID < 0 {
			continue
		}
		if _, seen := a.Outcomes[r.IntentID]; !seen {
			rc := r
			a.Outcomes[r.IntentID] = &rc
		}
		in := a.Intents[r.IntentID]
		kind := "?"
		if in != nil && len(in.Msgs) > 0 {
			kind = in.Msgs[0].K
			if len(in.Msgs) > 1 {
				kind += "+"
			}
		}
		if r.Code == 0 {
			a.c.Stats.MsgAccepted[kind]++
		} else {
			a.c.Stats.MsgRejected[kind]++
		}
	}
	for _, ac := range a.Actors {
		if ac.Inflight == nil {
			continue
		}
		done := false
		for _, tx := range txs {
			if string(tx) == string(ac.Inflight.bytes) {
				done = true
			}
		}
		// a client gives up after 6 heights (the tx may still sit in some mempool)
		if done || h-ac.Inflight.height >= 6 {
			ac.Inflight = nil
		}
	}
}

// Free reports whether the actor may send a new transaction (one in flight at a time).
func (a *Accounts) Free(actor int) bool {
	return actor >= 0 && actor < len(a.Actors) && a.Actors[actor].Inflight == nil
}
