package sim

import (
	"fmt"
	"sort"
)

// Profile steers a run into the region one property is about. All oracles run in every profile.
type Profile struct {
	Name        string
	Blocks      [2]int         // run length range
	OpW         map[string]int // operation weights
	TxPerBlock  [2]int
	FaultFree   float64 // probability that a run has no faults at all
	Faults      map[string]float64
	Vals        []int // candidate validator counts
	ValW        []int
	Witnesses   [2]int
	Candidates  [2]int
	BigGaps     float64 // probability per block of a huge time gap (when faults on)
	OneTxBlocks float64 // probability that the run uses exactly one user tx per block
	AvoidKnown  float64 // probability that the run avoids trigger classes of known findings
	ForkProb    float64 // per block: isolate one transaction's effect with a counterfactual fork
	LongFrac    float64 // fraction of runs that last > 2000 blocks (bridge-deposit rounds have a 2000-block window)
	TinyStakes  float64 // probability that plain accounts' genesis delegations are 1..5 whole tokens (small powers: exact half boundaries)
	SdkSlash    float64 // probability that the SDK's downtime slashing burns a fraction (1 % or 5 %) instead of nothing
}

// Gen turns (seed, profile) into a genesis configuration and a stream of HeightPlans.
// It is the only place where randomness exists; the executor is PRNG-free.
type Gen struct {
	Seed                                            uint64
	P                                               *Profile
	C                                               *Chain
	rGen, rNet, rClock, rCrash, rWork, rComet, rBug *Rng
	nextIntent                                      int
	NoFaults                                        bool
	Avoid                                           bool // avoid trigger classes of known findings
	OneTx                                           bool
	TotalBlocks                                     int
	Quiet                                           bool // quiet period: all faults off
	// fault state
	down     map[int]int // node -> heights it stays down
	isolated map[int]int // node -> heights it stays partitioned away (lags)
	byz      map[int]bool
	w        *Workload
	baseDtMs int64
	TimeAims []int64 // unix-ms instants the clock fault likes to hit (deadlines), maintained by the workload
	Long     bool    // long run: active phase, ~1900 idle blocks, active phase
}

func NewGen(seed uint64, p *Profile) *Gen {
	g := &Gen{Seed: seed, P: p, down: map[int]int{}, isolated: map[int]int{}, byz: map[int]bool{}}
	g.rGen = NewRng(seed, "genesis")
	g.rNet = NewRng(seed, "net")
	g.rClock = NewRng(seed, "clock")
	g.rCrash = NewRng(seed, "crash")
	g.rWork = NewRng(seed, "workload")
	g.rComet = NewRng(seed, "comet")
	g.rBug = NewRng(seed, "buggify")
	g.NoFaults = g.rGen.Chance(p.FaultFree)
	g.Avoid = g.rGen.Chance(p.AvoidKnown)
	g.OneTx = g.rGen.Chance(p.OneTxBlocks)
	g.TotalBlocks = int(g.rGen.Range(int64(p.Blocks[0]), int64(p.Blocks[1])))
	if g.rGen.Chance(p.LongFrac) {
		g.Long = true
		g.TotalBlocks = int(g.rGen.Range(2060, 2180))
	}
	g.baseDtMs = Pick(g.rGen, []int64{1000, 2000, 5000, 6000, 30000})
	return g
}

// Idle: the middle of a long run (nothing but empty blocks while the 2000-block deposit windows run).
func (g *Gen) Idle() bool {
	if !g.Long || g.C == nil {
		return false
	}
	h := g.C.Height() + 1
	return h > 70 && h < 1990
}

func (g *Gen) fault(name string) bool {
	if g.NoFaults || g.Quiet || g.Idle() {
		return false
	}
	return g.rNet.Chance(g.P.Faults[name])
}

func (g *Gen) Genesis() *GenesisCfg {
	r := g.rGen
	p := g.P
	nv := p.Vals[r.Weighted(p.ValW)]
	if g.Long {
		nv = Pick(r, []int{1, 1, 3})
	}
	cfg := &GenesisCfg{
		ChainID:     "layersim-1",
		GenesisUnix: 1_700_000_000 + r.Int64n(1_000_000),
		Witnesses:   int(r.Range(int64(p.Witnesses[0]), int64(p.Witnesses[1]))),
		Candidates:  int(r.Range(int64(p.Candidates[0]), int64(p.Candidates[1]))),
	}
	if g.Long {
		cfg.Witnesses, cfg.Candidates = 0, 0
	}
	// stake distribution
	switch r.Intn(4) {
	case 0: // equal
		s := r.Range(50, 5000) * 1_000_000
		for i := 0; i < nv; i++ {
			cfg.ValStakes = append(cfg.ValStakes, s)
		}
	case 1: // skewed
		for i := 0; i < nv; i++ {
			cfg.ValStakes = append(cfg.ValStakes, r.Range(20, 4000)*1_000_000)
		}
	case 2: // one whale (kept below 1/3 of total when possible so that faults on it do not stall the chain)
		for i := 0; i < nv; i++ {
			cfg.ValStakes = append(cfg.ValStakes, r.Range(100, 300)*1_000_000)
		}
		cfg.ValStakes[0] = r.Range(300, 400) * 1_000_000 * int64(max(1, nv-2))
	default: // near-equal with off-by-small amounts (equal powers after /1e6, unequal tokens)
		s := r.Range(50, 500) * 1_000_000
		for i := 0; i < nv; i++ {
			cfg.ValStakes = append(cfg.ValStakes, s+r.Int64n(999_999))
		}
	}
	// plain accounts
	na := int(r.Range(10, 22))
	for i := 0; i < na; i++ {
		var b int64
		switch r.Intn(6) {
		case 0:
			b = r.Range(0, 5_000) // dust / nothing: cannot even pay fees
		case 1:
			b = r.LogUniform(1_000_000, 1_000_000_000_000_000)
		default:
			b = r.Range(50, 50_000) * 1_000_000
		}
		cfg.AcctBalances = append(cfg.AcctBalances, b)
	}
	// twins: two accounts with identical liquid balances and nothing else (exact opposing vote weights)
	if r.Chance(0.6) {
		bal := Pick(r, []int64{5_000_000_000, 77_000_000, 1_000_000_000_000})
		cfg.Twins = []int{na, na + 1}
		cfg.AcctBalances = append(cfg.AcctBalances, bal, bal)
	}
	// genesis delegations of plain accounts (reporter/selector material; the ante 5 % rule makes later large delegations impossible)
	for i := 0; i < na; i++ {
		if r.Chance(0.7) {
			k := 1
			if r.Chance(0.3) {
				k = 2 + r.Intn(2)
			}
			used := map[int]bool{}
			for j := 0; j < k; j++ {
				v := r.Intn(nv)
				if used[v] {
					continue
				}
				used[v] = true
				var amt int64
				switch r.Intn(5) {
				case 0:
					amt = r.Range(1, 3) * 1_000_000 // around the minimum
				case 1:
					amt = r.Range(1, 2_000_000) // below / around one token, odd loya
				default:
					amt = r.Range(1, 3000)*1_000_000 + r.Int64n(1_000_000)*int64(r.Intn(2))
				}
				cfg.GenDelegations = append(cfg.GenDelegations, GenDelegation{Acct: i, Val: v, Amount: amt})
			}
		}
	}
	if r.Chance(p.TinyStakes) {
		for i := range cfg.GenDelegations {
			cfg.GenDelegations[i].Amount = r.Range(1, 5) * 1_000_000
		}
		cfg.MinTrb, cfg.MinStakeAmount = 1_000_000, 1_000_000
	}
	// a group of accounts with identical single delegations: equal reporting powers, exact ties
	if r.Chance(0.6) && na >= 6 {
		amt := Pick(r, []int64{1_000_000, 5_000_000, 123_000_000})
		val := r.Intn(nv)
		k := 2 + r.Intn(3)
		for _, i := range r.Perm(na)[:k] {
			var keep []GenDelegation
			for _, d := range cfg.GenDelegations {
				if d.Acct != i {
					keep = append(keep, d)
				}
			}
			cfg.GenDelegations = append(keep, GenDelegation{Acct: i, Val: val, Amount: amt})
		}
	}
	if g.Long {
		for i := range cfg.GenDelegations {
			if cfg.GenDelegations[i].Amount > 20_000_000 {
				cfg.GenDelegations[i].Amount = cfg.GenDelegations[i].Amount/50 + 1_000_000
			}
		}
	}
	cfg.MaxValidators = Pick(r, []uint32{100, 100, 100, uint32(nv), uint32(nv)}) // never below the genesis validator count (a bonded validator outside the active set is not a reachable state)
	cfg.UnbondingSec = Pick(r, []int64{21 * 86400, 21 * 86400, 3 * 86400, 3600})
	tiny := cfg.MinTrb == 1_000_000 && cfg.MinStakeAmount == 1_000_000
	cfg.MinTrb = Pick(r, []int64{1_000_000, 1_000_000, 2_000_000, 10_000_000})
	cfg.MaxSelectors = Pick(r, []uint64{100, 100, 5, 2, 1})
	cfg.MinStakeAmount = Pick(r, []int64{1_000_000, 1_000_000, 5_000_000})
	if tiny {
		cfg.MinTrb, cfg.MinStakeAmount = 1_000_000, 1_000_000
	}
	cfg.MaxReportWindow = Pick(r, []uint64{100_000, 100_000, 2000})
	cfg.SpotWindow = uint64(Pick(r, []int64{1, 2, 2, 2, 3, 5, 10, 20}))
	pairs := [][2]string{{"eth", "usd"}, {"btc", "usd"}, {"trb", "usd"}, {"sol", "usd"}, {"atom", "usd"}}
	ncl := int(r.Range(1, 5))
	cfg.CycleList = pairs[:ncl]
	cfg.GovVotingSec = Pick(r, []int64{30, 120, 600})
	cfg.SignedBlocksWindow = Pick(r, []int64{10, 30, 100})
	cfg.DowntimeJailSec = Pick(r, []int64{10, 60, 600})
	if rs := NewRng(g.Seed, "sdk-slash"); rs.Chance(p.SdkSlash) {
		// own stream: existing seeds keep generating what they generated
		cfg.SlashDowntimePct = Pick(rs, []int64{1, 5})
	}
	cfg.SnapshotLimit = Pick(r, []uint64{1000, 1000, 10, 3, 1})
	cfg.TeamAcct = r.Intn(na)
	cfg.KeyringShipped = r.Chance(0.04)
	total := nv + cfg.Candidates + cfg.Witnesses
	for i := 0; i < total; i++ {
		nc := NodeCfg{}
		if r.Chance(0.5) {
			nc.Pruning = Pick(r, []string{"default", "nothing", "everything"})
			nc.IAVLCacheSize = Pick(r, []int{0, 1, 100, 781250})
			nc.DisableFast = r.Chance(0.3)
			nc.MinGasPrice = Pick(r, []string{"", "0.0025loya", "0.01loya"})
		}
		cfg.NodeCfgs = append(cfg.NodeCfgs, nc)
	}
	return cfg
}

// Attach is called once the chain exists.
func (g *Gen) Attach(c *Chain) {
	g.C = c
	g.w = newWorkload(g)
	// Byzantine validators: a fixed set with < 1/3 power
	if !g.NoFaults && g.P.Faults["byz_ext"] > 0 {
		vs := c.valSet(1)
		tot := totalPower(vs)
		var acc int64
		for _, i := range g.rBug.Perm(len(vs)) {
			if (acc+vs[i].Power)*3 < tot && g.rBug.Chance(0.5) {
				acc += vs[i].Power
				g.byz[vs[i].ConsIdx] = true
			}
		}
	}
}

func (g *Gen) syncedValidators(h int64) []CometVal {
	var out []CometVal
	for _, v := range g.C.valSet(h) {
		n := g.C.Nodes[v.ConsIdx]
		if n.Up && n.Height() == h-1 && g.isolated[n.Idx] == 0 {
			out = append(out, v)
		}
	}
	return out
}

// Next plans one height. It never returns a plan the executor cannot carry out.
func (g *Gen) Next() (*HeightPlan, error) {
	c := g.C
	h := c.Height() + 1
	p := &HeightPlan{H: h, MaxTxs: 1000}
	vs := c.valSet(h)
	tot := totalPower(vs)

	// --- recoveries scheduled earlier
	for _, n := range c.Nodes {
		if g.down[n.Idx] > 0 {
			g.down[n.Idx]--
			if g.down[n.Idx] == 0 || g.Quiet {
				g.down[n.Idx] = 0
				p.Restarts = append(p.Restarts, n.Idx)
			}
		}
		if g.isolated[n.Idx] > 0 {
			g.isolated[n.Idx]--
			if g.isolated[n.Idx] == 0 || g.Quiet {
				g.isolated[n.Idx] = 0
				p.CatchUp = append(p.CatchUp, n.Idx)
				c.Stats.Fault("F4_heal")
			}
		}
	}
	restarted := func(i int) bool { return contains(p.Restarts, i) || contains(p.CatchUp, i) }

	// availability after recoveries
	avail := func(n *Node) bool {
		return (n.Up || contains(p.Restarts, n.Idx)) && g.isolated[n.Idx] == 0 && g.down[n.Idx] == 0
	}
	_ = restarted

	// --- new partition (minority isolated for k heights)
	if g.fault("partition") && h > 2 {
		var iso []int
		var lost int64
		for _, i := range g.rNet.Perm(len(vs)) {
			v := vs[i]
			if !avail(c.Nodes[v.ConsIdx]) {
				lost += v.Power
				continue
			}
		}
		for _, i := range g.rNet.Perm(len(vs)) {
			v := vs[i]
			if avail(c.Nodes[v.ConsIdx]) && (lost+v.Power)*3 < tot && g.rNet.Chance(0.6) {
				lost += v.Power
				iso = append(iso, v.ConsIdx)
			}
		}
		k := int(g.rNet.Range(1, 12))
		if g.rNet.Chance(0.3) {
			k = int(g.rNet.Range(10, int64(g.C.Cfg.SignedBlocksWindow)+5)) // long enough for downtime jailing
		}
		for _, i := range iso {
			g.isolated[i] = k
			c.Stats.Fault("F4_partition")
		}
	}

	// --- voters
	var cand []CometVal
	for _, v := range vs {
		if avail(c.Nodes[v.ConsIdx]) {
			cand = append(cand, v)
		}
	}
	var candPower int64
	for _, v := range cand {
		candPower += v.Power
	}
	if candPower*3 <= tot*2 {
		// not enough power: heal everything now (the stall itself is modelled as a time gap)
		for _, n := range c.Nodes {
			if g.isolated[n.Idx] > 0 {
				g.isolated[n.Idx] = 0
				p.CatchUp = append(p.CatchUp, n.Idx)
			}
			if g.down[n.Idx] > 0 || !n.Up {
				g.down[n.Idx] = 0
				if !contains(p.Restarts, n.Idx) {
					p.Restarts = append(p.Restarts, n.Idx)
				}
			}
		}
		cand = vs
		candPower = tot
		p.DtMs = g.rClock.LogUniform(60_000, 30*86400_000)
		c.Stats.Fault("F4_majority_loss_stall")
	}
	// Byzantine extensions may be rejected by every honest receiver, which costs that precommit:
	// budget their power first so that the height still decides.
	voters := append([]CometVal(nil), cand...)
	if h > 1 && !g.NoFaults && !g.Quiet {
		for _, v := range voters {
			if g.byz[v.ConsIdx] && g.rBug.Chance(g.P.Faults["byz_ext"]) && (candPower-v.Power)*3 > tot*2 {
				if p.ExtMut == nil {
					p.ExtMut = map[int]ExtMutation{}
				}
				p.ExtMut[c.Nodes[v.ConsIdx].Idx] = g.drawExtMutation()
				candPower -= v.Power
			}
		}
	}
	// slow validators miss this height's vote (F7) while keeping > 2/3
	if g.fault("slow") {
		for _, i := range g.rComet.Perm(len(voters)) {
			if i >= len(voters) {
				continue
			}
			if _, isByz := p.ExtMut[c.Nodes[voters[i].ConsIdx].Idx]; isByz {
				continue
			}
			if (candPower-voters[i].Power)*3 > tot*2 && g.rComet.Chance(0.5) {
				candPower -= voters[i].Power
				voters = append(voters[:i], voters[i+1:]...)
				c.Stats.Fault("F7_slow_validator")
			}
		}
	}
	for _, v := range voters {
		p.Voters = append(p.Voters, c.Nodes[v.ConsIdx].Idx)
	}
	sort.Ints(p.Voters)

	// proposer: seeded, weighted by power among voters
	w := make([]int, len(voters))
	for i, v := range voters {
		w[i] = int(v.Power%1_000_000) + 1
	}
	p.Proposer = c.Nodes[voters[g.rComet.Weighted(w)].ConsIdx].Idx

	// which precommits of h-1 the proposer holds
	if h > 1 && g.fault("vote_loss") {
		prev := c.Blocks[h-2]
		var committed []CometVal
		var cp, ptot int64
		for _, ev := range prev.ExtVotes {
			ptot += ev.Validator.Power
			if ev.BlockIdFlag == 2 {
				ci := c.consIdxByAddr(ev.Validator.Address)
				committed = append(committed, CometVal{ConsIdx: ci, Power: ev.Validator.Power})
				cp += ev.Validator.Power
			}
		}
		for _, i := range g.rComet.Perm(len(committed)) {
			v := committed[i]
			if v.ConsIdx == c.Nodes[p.Proposer].ConsIdx {
				continue // a proposer always has its own vote
			}
			if (cp-v.Power)*3 > ptot*2 && g.rComet.Chance(0.5) {
				cp -= v.Power
				p.Absent = append(p.Absent, v.ConsIdx)
				c.Stats.Fault("F1_vote_lost")
			}
		}
		sort.Ints(p.Absent)
	}

	// failed rounds before the deciding one
	if g.fault("failed_round") && h > 1 {
		k := 1 + g.rComet.Intn(2)
		for i := 0; i < k; i++ {
			fr := RoundPlan{Proposer: c.Nodes[Pick(g.rComet, cand).ConsIdx].Idx}
			for _, v := range cand {
				if g.rComet.Chance(0.5) {
					fr.Process = append(fr.Process, c.Nodes[v.ConsIdx].Idx)
					if g.rComet.Chance(0.5) {
						fr.Extend = append(fr.Extend, c.Nodes[v.ConsIdx].Idx)
					}
				}
			}
			p.FailedRounds = append(p.FailedRounds, fr)
		}
	}

	// executing nodes: every available node
	for _, n := range c.Nodes {
		if avail(n) {
			p.Exec = append(p.Exec, n.Idx)
		}
	}

	// crashes
	if g.fault("crash") && h > 1 {
		// choose a node whose loss keeps > 2/3 voting (or a witness)
		for _, i := range g.rCrash.Perm(len(c.Nodes)) {
			n := c.Nodes[i]
			if !avail(n) || n.Idx == p.Proposer {
				continue
			}
			var pw int64
			for _, v := range voters {
				if v.ConsIdx == n.ConsIdx {
					pw = v.Power
				}
			}
			pt := CrashPoint(g.rCrash.Intn(int(numCrashPoints)))
			if pw > 0 && pt <= CrashAfterProcess {
				// dies before precommitting: must not cost the quorum
				if (candPower-pw)*3 <= tot*2 {
					continue
				}
				candPower -= pw
			}
			p.Crashes = append(p.Crashes, CrashEvt{Node: n.Idx, Point: pt})
			g.down[n.Idx] = int(g.rCrash.Range(1, 6))
			break
		}
	}

	// Byzantine extensions / keyring failures / tamper probes
	if h > 1 && !g.NoFaults && !g.Quiet {
		for _, v := range voters {
			if _, isByz := p.ExtMut[c.Nodes[v.ConsIdx].Idx]; !isByz && g.rBug.Chance(g.P.Faults["keyring_fail"]) {
				p.KeyringFail = append(p.KeyringFail, c.Nodes[v.ConsIdx].Idx)
			}
		}
		if g.rBug.Chance(g.P.Faults["tamper"]) {
			k := 1 + g.rBug.Intn(4)
			for i := 0; i < k; i++ {
				p.TamperProbes = append(p.TamperProbes, g.drawProposalMutation())
			}
		}
	}

	// time
	if p.DtMs == 0 {
		p.DtMs = g.drawDt(h)
	}

	// workload
	p.Deliver = g.w.intentsFor(h, p)
	if g.P.ForkProb > 0 && len(p.Deliver) > 0 && g.rWork.Chance(g.P.ForkProb) {
		var cands []int
		for _, d := range p.Deliver {
			if contains(d.To, p.Proposer) {
				cands = append(cands, d.Intent.ID)
			}
		}
		if len(cands) > 0 {
			p.ForkIntent = Pick(g.rWork, cands)
		}
	}
	if g.fault("tiny_block") {
		p.MaxTxs = g.rBug.Intn(2)
		c.Stats.Fault("F11_tiny_block")
	}
	if g.fault("reorder") {
		// proposer's mempool order differs from submission order
		n := len(c.Nodes[p.Proposer].Mempool) + len(p.Deliver)
		if n > 1 {
			p.PermuteTxs = g.rNet.Perm(n)
			c.Stats.Fault("F3_reorder")
		}
	}
	return p, nil
}

func (g *Gen) drawDt(h int64) int64 {
	r := g.rClock
	if g.Quiet || g.Idle() {
		return g.baseDtMs
	}
	if g.NoFaults {
		// fault-free runs still need the occasional long interval (12 h claim age, dispute periods) to make progress
		if g.Long && h > 2000 && r.Chance(0.05) {
			return 12*3600_000 + 1000
		}
		return g.baseDtMs
	}
	// open finding (C17 commit-validator-record-removed): a block gap longer than the unbonding time right after a
	// validator left the bonded set removes its record while its last votes are still in the commit, and every
	// proposal is rejected from then on. Runs that avoid the known triggers keep gaps short while a validator unbonds.
	capMs := int64(0)
	if g.Avoid {
		if v := g.C.View(); v != nil {
			for _, val := range v.Validators() {
				if val.IsUnbonding() {
					capMs = g.C.Cfg.UnbondingSec * 1000 / 3
				}
			}
		}
	}
	if capMs > 0 {
		if g.baseDtMs < capMs {
			return g.baseDtMs
		}
		return capMs
	}
	// aim at a deadline if one is near enough
	if len(g.TimeAims) > 0 && r.Chance(g.P.Faults["aim_deadline"]) {
		now := g.C.LastTime.UnixMilli()
		var future []int64
		for _, a := range g.TimeAims {
			if a > now {
				future = append(future, a)
			}
		}
		if len(future) > 0 {
			a := Pick(r, future)
			d := a - now + Pick(r, []int64{-1, 0, 0, 1, 1, 1000})
			if d >= 1 {
				g.C.Stats.Fault("F6_aim_deadline")
				return d
			}
		}
	}
	switch {
	case r.Chance(g.P.Faults["clock_back"]):
		g.C.Stats.Fault("F6_step_back_1ms")
		return 1
	case r.Chance(g.P.BigGaps):
		g.C.Stats.Fault("F6_big_gap")
		return Pick(r, []int64{600_000, 3600_000, 12 * 3600_000, 12*3600_000 + 1, 86400_000, 2 * 86400_000, 3 * 86400_000, 14 * 86400_000, 21*86400_000 + 1000, 40 * 86400_000})
	case r.Chance(g.P.Faults["jitter"]):
		return r.Range(1, 3*g.baseDtMs)
	}
	return g.baseDtMs
}

func (g *Gen) drawExtMutation() ExtMutation {
	r := g.rBug
	kinds := []string{"raw", "empty", "json", "replay", "dup_attest", "oversize", "extra_attest", "foreign_ts", "zero_sigs"}
	m := ExtMutation{Kind: Pick(r, kinds)}
	switch m.Kind {
	case "raw":
		n := r.Intn(80)
		b := make([]byte, n)
		for i := range b {
			b[i] = byte(r.Intn(256))
		}
		m.Hex = fmt.Sprintf("%x", b)
	case "json":
		m.Text = Pick(r, []string{"null", "{}", "[]", `{"OracleAttestations":null,"InitialSignature":null,"ValsetSignature":null}`,
			`{"OracleAttestations":[{"Snapshot":null,"Attestation":null}]}`, `{"ValsetSignature":{"Signature":"AAAA","Timestamp":18446744073709551615}}`,
			`{"InitialSignature":{"SignatureA":"AA==","SignatureB":""}}`, `{"OracleAttestations":[`, `"x"`, `12`,
			`{"InitialSignature":{"SignatureA":"` + "QUFBQUFBQUFBQUFBQUFBQUFBQUFBQUFBQUFBQUFBQUFBQUFBQUFBQUFBQUFBQUFBQUFBQUFBQUFBQUFBQUFBQUFBQUFBQUFBQUFBQQ==" + `","SignatureB":"QQ=="}}`})
	case "replay":
		m.Other = r.Intn(len(g.C.Nodes))
		m.Back = r.Int64n(4)
	}
	return m
}

func (g *Gen) drawProposalMutation() ProposalMutation {
	r := g.rBug
	kinds := []string{"alter", "drop", "append", "dup", "swap", "commit_ext", "commit_drop", "commit_flag", "not_json", "height", "append", "alter"}
	lists := []string{"op_addrs", "evm_addrs", "vs_ops", "vs_ts", "vs_sigs", "oa_ops", "oa_att", "oa_snap"}
	return ProposalMutation{Kind: Pick(r, kinds), List: Pick(r, lists), Index: r.Intn(8)}
}

// IsLong tells whether the run a seed generates under a profile is a long (> 2000 block) run.
func IsLong(seed uint64, p *Profile) bool { return NewGen(seed, p).Long }
