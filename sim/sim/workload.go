package sim

import (
	"fmt"
	"sort"
	"strings"

	"cosmossdk.io/math"

	sdk "github.com/cosmos/cosmos-sdk/types"
)

// Workload generates intents at "intent level": concrete arguments, no signatures.
type Workload struct {
	g    *Gen
	r    *Rng
	v    *View // refreshed each height
	ops  map[string]func(h int64) (*Intent, bool)
	uniq int64
	// knowledge the clients keep
	depositIDs  []uint64 // deposit ids someone has reported
	specTypes   []string // custom query types registered by the workload
	govProposed int
	busy        map[int]bool
	movedStake  map[string]bool // delegators that sent an undelegate / redelegate
	extra       []*Intent       // further intents an op wants delivered in the same block (a burst by several actors)
}

func newWorkload(g *Gen) *Workload {
	w := &Workload{g: g, r: g.rWork, movedStake: map[string]bool{}}
	w.ops = map[string]func(h int64) (*Intent, bool){
		"tip":             w.opTip,
		"split_reports":   w.opSplitReports,
		"create_reporter": w.opCreateReporter,
		"select_reporter": w.opSelectReporter,
		"switch_reporter": w.opSwitchReporter,
		"remove_selector": w.opRemoveSelector,
		"submit_value":    w.opSubmitValue,
		"withdraw_tip":    w.opWithdrawTip,
		"delegate":        w.opDelegate,
		"undelegate":      w.opUndelegate,
		"redelegate":      w.opRedelegate,
		"send":            w.opSend,
		"unjail_reporter": w.opUnjailReporter,
	}
	registerMoreOps(w)
	return w
}

func (w *Workload) newIntent(actor int, msgs ...MsgSpec) *Intent {
	w.g.nextIntent++
	return &Intent{ID: w.g.nextIntent, Actor: actor, Msgs: msgs, FeeLoya: -1}
}

func (w *Workload) acc() *Accounts { return w.g.C.Accounts }

// freeActor picks an actor with no transaction in flight (and some liquid balance unless any==true).
func (w *Workload) freeActor(any bool) (int, bool) {
	a := w.acc()
	for _, i := range w.r.Perm(len(a.Actors)) {
		if !a.Free(i) || w.busy[i] || w.isTwin(i) {
			continue
		}
		if !any && w.v.Balance(a.Actors[i].Addr).LT(math.NewInt(3000)) {
			continue
		}
		return i, true
	}
	return 0, false
}

func (w *Workload) usable(actor int) bool {
	a := w.acc()
	return actor >= 0 && actor < len(a.Actors) && a.Free(actor) && !w.busy[actor]
}

// intentsFor draws this height's transactions and their delivery (network faults applied here).
func (w *Workload) intentsFor(h int64, p *HeightPlan) []Delivery {
	g := w.g
	w.v = g.C.View()
	if w.v == nil || h <= 1 {
		return nil // nothing is committed before the first block
	}
	w.busy = map[int]bool{}
	w.refreshAims()
	n := int(w.r.Range(int64(g.P.TxPerBlock[0]), int64(g.P.TxPerBlock[1])))
	if g.OneTx {
		n = 1
	}
	if g.Quiet || g.Idle() {
		n = 0
	}
	names := make([]string, 0, len(g.P.OpW))
	for k := range g.P.OpW {
		names = append(names, k)
	}
	sort.Strings(names)
	weights := make([]int, len(names))
	for i, k := range names {
		weights[i] = g.P.OpW[k]
	}
	if g.Long {
		over := map[string]int{}
		if h <= 70 {
			// governance switches minting on early so that the time-based reward pool is filled when the deposit rounds
			// (several of them closing in one block, sharing reporters) are paid
			over = map[string]int{"op_reporter": 30, "deposit_report": 60, "select_reporter": 10, "gov_proposal": 8, "gov_vote": 30}
		} else {
			over = map[string]int{"claim_deposits": 60, "deposit_report": 5, "propose_dispute": 5, "request_attestations": 5}
		}
		for i, k := range names {
			if w2, ok := over[k]; ok {
				weights[i] = w2
			}
		}
		for k, w2 := range over {
			found := false
			for _, nme := range names {
				if nme == k {
					found = true
				}
			}
			if !found {
				names = append(names, k)
				weights = append(weights, w2)
			}
		}
	}
	var out []Delivery
	for i := 0; i < n; i++ {
		var in *Intent
		for try := 0; try < 6 && in == nil; try++ {
			k := names[w.r.Weighted(weights)]
			op := w.ops[k]
			if op == nil {
				continue
			}
			if x, ok := op(h); ok {
				in = x
			}
		}
		if in == nil {
			continue
		}
		w.busy[in.Actor] = true
		w.decorate(in)
		out = append(out, w.deliveryFor(in, p))
		for _, x := range w.extra {
			if !x.Follow && (w.busy[x.Actor] || !w.usable(x.Actor)) {
				continue
			}
			w.busy[x.Actor] = true
			w.decorate(x)
			out = append(out, w.deliveryFor(x, p))
		}
		w.extra = nil
	}
	return out
}

// decorate applies transaction-level faults (F9): gas limits, fees, stale sequences.
func (w *Workload) decorate(in *Intent) {
	g := w.g
	if in.Gas == 0 {
		in.Gas = 400_000 + uint64(len(in.Msgs))*250_000
	}
	if g.fault("oog") {
		in.Gas = uint64(w.r.LogUniform(30_000, 600_000))
		g.C.Stats.Fault("F9_random_gas_limit")
	}
	if g.fault("low_fee") {
		in.FeeLoya = w.r.Int64n(200)
		g.C.Stats.Fault("F9_low_fee")
	}
	if g.fault("bad_seq") {
		in.SeqDelta = Pick(w.r, []int{-1, 1, 5})
		g.C.Stats.Fault("F9_bad_sequence")
	}
}

func (w *Workload) deliveryFor(in *Intent, p *HeightPlan) Delivery {
	g := w.g
	d := Delivery{Intent: *in}
	if g.fault("tx_loss") {
		return d // lost in the network
	}
	// always reaches the proposer unless the delay fault holds it back from it
	toAll := !g.fault("tx_partial")
	for _, n := range g.C.Nodes {
		if n.ConsIdx < 0 {
			continue
		}
		if toAll || n.Idx == p.Proposer || w.r.Chance(0.5) {
			d.To = append(d.To, n.Idx)
		}
	}
	if !toAll && g.fault("tx_delay") {
		// the proposer of this height does not have it yet: it lands in a later block (F3)
		var to []int
		for _, x := range d.To {
			if x != p.Proposer {
				to = append(to, x)
			}
		}
		d.To = to
		g.C.Stats.Fault("F3_tx_delayed")
	}
	d.Dup = g.fault("tx_dup")
	return d
}

// ---------------------------------------------------------------- basic operations

var spotNames = []string{"eth/usd", "btc/usd", "trb/usd", "sol/usd", "atom/usd", "doge/usd", "ada/usd"}

func (w *Workload) someSpotQuery() string {
	cl := w.g.C.Cfg.CycleList
	if w.r.Chance(0.6) {
		p := cl[w.r.Intn(len(cl))]
		return "spot:" + p[0] + "/" + p[1]
	}
	return "spot:" + Pick(w.r, spotNames)
}

func (w *Workload) amount(maxv math.Int) string {
	r := w.r
	switch r.Intn(10) {
	case 0:
		return "0"
	case 1:
		return "1"
	case 2:
		return fmt.Sprint(r.Range(1, 49)) // 2 % truncates to zero
	case 3:
		return fmt.Sprint(r.Range(50, 149))
	case 4:
		if maxv.IsPositive() {
			return maxv.String() // everything
		}
	case 5:
		if maxv.IsPositive() {
			return maxv.AddRaw(1).String() // one more than available
		}
	}
	hi := int64(1_000_000_000_000_000)
	if maxv.IsPositive() && maxv.IsInt64() && maxv.Int64() < hi {
		hi = maxv.Int64()
	}
	return fmt.Sprint(r.LogUniform(1, hi))
}

func (w *Workload) opTip(h int64) (*Intent, bool) {
	a, ok := w.freeActor(false)
	if !ok {
		return nil, false
	}
	bal := w.v.Balance(w.acc().Addr(a))
	q := w.someQuery(true)
	return w.newIntent(a, MsgSpec{K: "tip", Q: q, N: w.amount(bal.QuoRaw(4))}), true
}

// someQuery: mostly reportable spot queries; sometimes deposits, withdrawals, unknown types, garbage.
func (w *Workload) someQuery(forTip bool) string {
	r := w.r
	switch r.Intn(20) {
	case 0:
		return fmt.Sprintf("dep:%d", r.Range(1, 6))
	case 1:
		return fmt.Sprintf("wd:%d", r.Range(1, 4))
	case 2:
		return "typ:NoSuchType:" + fmt.Sprintf("%x", AbiEncode(AbiString("x")))
	case 3:
		return "raw:" + fmt.Sprintf("%x", []byte{1, 2, 3})
	case 4:
		if sp := w.wordSpecs(""); len(sp) > 0 {
			return w.customQuery(Pick(r, sp).Type)
		}
	}
	return w.someSpotQuery()
}

func (w *Workload) opCreateReporter(h int64) (*Intent, bool) {
	a := w.acc()
	have := map[string]bool{}
	for _, s := range w.v.Selectors() {
		have[string(s.Addr)] = true
	}
	for _, i := range w.r.Perm(len(a.Actors)) {
		if !w.usable(i) || have[string(a.Actors[i].Addr)] && w.r.Chance(0.9) {
			continue
		}
		stake := w.v.BondedStakeOf(a.Actors[i].Addr)
		if stake.IsZero() && w.r.Chance(0.9) {
			continue
		}
		comm := w.commissionRate()
		minTok := Pick(w.r, []string{fmt.Sprint(w.g.C.Cfg.MinTrb), fmt.Sprint(w.g.C.Cfg.MinTrb), fmt.Sprint(w.g.C.Cfg.MinTrb * 3), "0", fmt.Sprint(w.g.C.Cfg.MinTrb - 1), "100000000"})
		return w.newIntent(i, MsgSpec{K: "create_reporter", V: comm, N: minTok}), true
	}
	return nil, false
}

// commissionRate draws every accepted class (0, small fraction, 1, between 1 and 100, 100) and rejected ones.
func (w *Workload) commissionRate() string {
	if w.g.Avoid {
		return Pick(w.r, []string{"0", "0.05", "0.1", "0.25", "0.5", "1", "0.000000000000000001", "0.333333333333333333"})
	}
	return Pick(w.r, []string{"0", "0.05", "0.1", "0.25", "0.5", "1", "0.000000000000000001", "0.333333333333333333", "2", "5", "50", "100", "100.000000000000000001", "-0.1"}) // incl. rates outside [0,1]
}

func (w *Workload) opSelectReporter(h int64) (*Intent, bool) {
	reps := w.v.Reporters()
	if len(reps) == 0 {
		return nil, false
	}
	a := w.acc()
	have := map[string]bool{}
	for _, s := range w.v.Selectors() {
		have[string(s.Addr)] = true
	}
	for _, i := range w.r.Perm(len(a.Actors)) {
		if !w.usable(i) || have[string(a.Actors[i].Addr)] && w.r.Chance(0.9) {
			continue
		}
		if w.v.BondedStakeOf(a.Actors[i].Addr).IsZero() && w.r.Chance(0.8) {
			continue
		}
		rep := Pick(w.r, reps)
		return w.newIntent(i, MsgSpec{K: "select_reporter", T: rep.Actor}), true
	}
	return nil, false
}

func (w *Workload) opSwitchReporter(h int64) (*Intent, bool) {
	reps := w.v.Reporters()
	sels := w.v.Selectors()
	if len(reps) < 2 || len(sels) == 0 {
		return nil, false
	}
	for _, i := range w.r.Perm(len(sels)) {
		s := sels[i]
		if !w.usable(s.Actor) {
			continue
		}
		if string(s.Reporter) == string(s.Addr) && w.r.Chance(0.9) {
			continue // a reporter cannot switch
		}
		rep := Pick(w.r, reps)
		return w.newIntent(s.Actor, MsgSpec{K: "switch_reporter", T: rep.Actor}), true
	}
	return nil, false
}

func (w *Workload) opRemoveSelector(h int64) (*Intent, bool) {
	sels := w.v.Selectors()
	if len(sels) == 0 {
		return nil, false
	}
	a, ok := w.freeActor(false)
	if !ok {
		return nil, false
	}
	s := Pick(w.r, sels)
	// removal by others is only possible for selectors of a reporter that is over the cap (after governance lowered
	// it): prefer those, so that the removal exception is exercised and not only its refusal
	if rp, err := w.v.n.App.ReporterKeeper.Params.Get(w.v.ctx); err == nil && w.r.Chance(0.7) {
		n := map[string]int{}
		for _, x := range sels {
			n[string(x.Reporter)]++
		}
		var over []SelectorInfo
		for _, x := range sels {
			if uint64(n[string(x.Reporter)]) > rp.MaxSelectors {
				over = append(over, x)
			}
		}
		if len(over) > 0 {
			s = Pick(w.r, over)
		}
	}
	return w.newIntent(a, MsgSpec{K: "remove_selector", T: s.Actor}), true
}

func (w *Workload) opUnjailReporter(h int64) (*Intent, bool) {
	for _, rp := range w.v.Reporters() {
		if rp.Rec.Jailed && w.usable(rp.Actor) {
			return w.newIntent(rp.Actor, MsgSpec{K: "unjail_reporter"}), true
		}
	}
	if w.r.Chance(0.1) {
		if a, ok := w.freeActor(false); ok {
			return w.newIntent(a, MsgSpec{K: "unjail_reporter"}), true
		}
	}
	return nil, false
}

// valueFor produces a report value for the query's response type.
func (w *Workload) valueFor(q string) string {
	r := w.r
	if strings.HasPrefix(q, "dep:") {
		return w.depositValue(q)
	}
	if strings.HasPrefix(q, "typ:") {
		return w.customValue(q)
	}
	// uint256
	var hexv string
	switch r.Intn(8) {
	case 0:
		hexv = fmt.Sprintf("%064x", 0)
	case 1:
		hexv = strings.Repeat("f", 64)
	case 2, 3:
		// few distinct values so that duplicates and ties occur
		hexv = fmt.Sprintf("%064x", 1000+r.Intn(3))
	default:
		hexv = fmt.Sprintf("%064x", r.LogUniform(1, 1<<62))
	}
	if w.g.Avoid {
		return hexv
	}
	switch r.Intn(14) {
	case 0:
		return "0x" + hexv
	case 1:
		return "0X" + hexv
	case 2:
		return hexv[:63] // odd length
	case 3:
		return hexv + "00" // longer than a word
	case 4:
		return strings.ToUpper(hexv)
	case 5:
		return "zz" + hexv[2:]
	case 6:
		return hexv[:32] // too short for uint256
	}
	return hexv
}

func (w *Workload) opSubmitValue(h int64) (*Intent, bool) {
	reps := w.v.Reporters()
	if len(reps) == 0 {
		return nil, false
	}
	// candidate queries: open rounds first (their windows are short), else anything
	var open []string
	for _, q := range w.v.Queries() {
		if q.Meta.Expiration >= uint64(h) || w.r.Chance(0.2) {
			open = append(open, "raw:"+fmt.Sprintf("%x", q.Meta.QueryData))
		}
	}
	for _, i := range w.r.Perm(len(reps)) {
		rp := reps[i]
		if !w.usable(rp.Actor) {
			continue
		}
		var q string
		switch {
		case len(open) > 0 && w.r.Chance(0.8):
			q = Pick(w.r, open)
		default:
			q = w.someQuery(false)
		}
		val := w.valueFor(w.canonName(q))
		return w.newIntent(rp.Actor, MsgSpec{K: "submit_value", Q: q, V: val}), true
	}
	// a non-reporter tries
	if w.r.Chance(0.1) {
		if a, ok := w.freeActor(false); ok {
			q := w.someQuery(false)
			return w.newIntent(a, MsgSpec{K: "submit_value", Q: q, V: w.valueFor(q)}), true
		}
	}
	return nil, false
}

// canonName maps raw query data back to a known name class when possible (so value generators can match the type).
func (w *Workload) canonName(q string) string {
	if !strings.HasPrefix(q, "raw:") {
		return q
	}
	qd := QueryDataOf(q)
	for id := uint64(0); id < 12; id++ {
		if eqBytes(qd, BridgeQueryData(true, id)) {
			return fmt.Sprintf("dep:%d", id)
		}
	}
	for _, sp := range w.wordSpecs("") {
		if eqBytes(qd, QueryDataOf(w.customQuery(sp.Type))) {
			return w.customQuery(sp.Type)
		}
	}
	return q
}

func (w *Workload) opWithdrawTip(h int64) (*Intent, bool) {
	tips := w.v.SelectorTips()
	keys := make([]string, 0, len(tips))
	for k := range tips {
		keys = append(keys, k)
	}
	sort.Strings(keys)
	vals := w.v.Validators()
	if len(vals) == 0 {
		return nil, false
	}
	pickVal := func() int {
		v := Pick(w.r, vals)
		va, _ := sdk.ValAddressFromBech32(v.OperatorAddress)
		return w.acc().ActorByAddr(va) // operator actor index == cons idx
	}
	for _, i := range w.r.Perm(len(keys)) {
		a := w.acc().ActorByAddr([]byte(keys[i]))
		if w.usable(a) {
			return w.newIntent(a, MsgSpec{K: "withdraw_tip", Val: pickVal()}), true
		}
	}
	if w.r.Chance(0.1) {
		if a, ok := w.freeActor(false); ok {
			return w.newIntent(a, MsgSpec{K: "withdraw_tip", Val: pickVal()}), true
		}
	}
	return nil, false
}

// stakeAmount aims at the 5 % ante bound.
func (w *Workload) stakeAmount(limit math.Int) string {
	bonded := w.v.BondedTotal()
	five := bonded.QuoRaw(20)
	r := w.r
	var x math.Int
	switch r.Intn(8) {
	case 0:
		x = five // exactly 5 %
	case 1:
		x = five.AddRaw(1)
	case 2:
		x = five.SubRaw(1)
	case 3:
		x = five.MulRaw(4).QuoRaw(5)
	case 4:
		x = math.NewInt(r.Range(1, 2_000_000))
	default:
		hi := five
		if !hi.IsInt64() || hi.Int64() < 2 {
			hi = math.NewInt(2)
		}
		x = math.NewInt(r.LogUniform(1, hi.Int64()))
	}
	if limit.IsPositive() && x.GT(limit) && r.Chance(0.8) {
		x = limit
	}
	return x.String()
}

func (w *Workload) randomVal() int {
	vals := w.v.Validators()
	if len(vals) == 0 {
		return 0
	}
	v := Pick(w.r, vals)
	va, _ := sdk.ValAddressFromBech32(v.OperatorAddress)
	return w.acc().ActorByAddr(va)
}

func (w *Workload) opDelegate(h int64) (*Intent, bool) {
	a, ok := w.freeActor(false)
	if !ok {
		return nil, false
	}
	bal := w.v.Balance(w.acc().Addr(a))
	return w.newIntent(a, MsgSpec{K: "delegate", Val: w.randomVal(), N: w.stakeAmount(bal.SubRaw(5000))}), true
}

func (w *Workload) delegatorWithStake() (int, int, math.Int, bool) {
	dels := w.v.AllDelegations()
	for _, i := range w.r.Perm(len(dels)) {
		d := dels[i]
		da, _ := sdk.AccAddressFromBech32(d.DelegatorAddress)
		a := w.acc().ActorByAddr(da)
		if !w.usable(a) {
			continue
		}
		va, _ := sdk.ValAddressFromBech32(d.ValidatorAddress)
		val, ok := w.v.Validator(va)
		if !ok {
			continue
		}
		return a, w.acc().ActorByAddr(va), val.TokensFromShares(d.Shares).TruncateInt(), true
	}
	return 0, 0, math.Int{}, false
}

func (w *Workload) opUndelegate(h int64) (*Intent, bool) {
	a, v, amt, ok := w.delegatorWithStake()
	if !ok {
		return nil, false
	}
	w.movedStake[string(w.acc().Addr(a))] = true
	return w.newIntent(a, MsgSpec{K: "undelegate", Val: v, N: w.stakeAmount(amt)}), true
}

func (w *Workload) opRedelegate(h int64) (*Intent, bool) {
	a, v, amt, ok := w.delegatorWithStake()
	if !ok {
		return nil, false
	}
	w.movedStake[string(w.acc().Addr(a))] = true
	return w.newIntent(a, MsgSpec{K: "redelegate", Val: v, Val2: w.randomVal(), N: w.stakeAmount(amt)}), true
}

func (w *Workload) opSend(h int64) (*Intent, bool) {
	a, ok := w.freeActor(false)
	if !ok {
		return nil, false
	}
	bal := w.v.Balance(w.acc().Addr(a))
	t := w.r.Intn(len(w.acc().Actors))
	return w.newIntent(a, MsgSpec{K: "send", T: t, N: w.amount(bal.QuoRaw(3))}), true
}

// isTwin: twin accounts are reserved for the exact-tie vote scenario.
func (w *Workload) isTwin(actor int) bool {
	for _, t := range w.g.C.Cfg.Twins {
		if w.acc().ActorOfAcct(t) == actor {
			return true
		}
	}
	return false
}
