package sim

import (
	"bytes"
	"fmt"
	"math/big"
	"time"

	bridgekeeper "github.com/tellor-io/layer/x/bridge/keeper"
	bridgetypes "github.com/tellor-io/layer/x/bridge/types"

	sdk "github.com/cosmos/cosmos-sdk/types"
)

// OracleC14 — bridge deposits mint once, conditionally; withdrawals burn what they attest.
// ref.BridgeTokens: claim guards and exact amounts from the decoded aggregate (independent ABI decoder),
// once-only over the whole history, withdrawal ids and attested values.
type OracleC14 struct {
	counters
	claimed  map[uint64]int64 // deposit id -> height of the successful claim
	prevFlag map[string]bool  // aggregate key -> flagged at the end of the previous block
	lastWdID uint64
	haveWd   bool
}

func NewOracleC14() *OracleC14 {
	return &OracleC14{counters: newCounters(), claimed: map[uint64]int64{}, prevFlag: map[string]bool{}}
}
func (o *OracleC14) ID() string { return "C14" }

func (o *OracleC14) v(h int64, oracle, site, class, f string, a ...any) *Violation {
	return &Violation{Property: "C14", Oracle: oracle, Site: site, Class: class, Height: h, Msg: fmt.Sprintf(f, a...)}
}

var e12 = big.NewInt(1_000_000_000_000)

// thresholdAt: the two-thirds threshold of the checkpoint in force at a report's time. A checkpoint recorded in the
// very block that created the aggregate carries the same millisecond: "in force at report time" can be read with or
// without it, so the smaller of the two readings is what a claim must at least reach.
func thresholdAt(v *View, tsMs uint64) (uint64, bool) {
	bk := v.n.App.BridgeKeeper
	latest, err := bk.LatestCheckpointIdx.Get(v.ctx)
	if err != nil {
		return 0, false
	}
	var bestLE, bestLT uint64
	foundLE, foundLT := false, false
	for i := uint64(0); i <= latest.Index; i++ {
		t, err := bk.ValidatorCheckpointIdxMap.Get(v.ctx, i)
		if err != nil {
			continue
		}
		if t.Timestamp <= tsMs && (!foundLE || t.Timestamp >= bestLE) {
			bestLE, foundLE = t.Timestamp, true
		}
		if t.Timestamp < tsMs && (!foundLT || t.Timestamp >= bestLT) {
			bestLT, foundLT = t.Timestamp, true
		}
	}
	if !foundLE {
		return 0, false
	}
	p, err := bk.ValidatorCheckpointParamsMap.Get(v.ctx, bestLE)
	if err != nil {
		return 0, false
	}
	thr := p.PowerThreshold
	if foundLT && bestLT != bestLE {
		if q, err := bk.ValidatorCheckpointParamsMap.Get(v.ctx, bestLT); err == nil && q.PowerThreshold < thr {
			thr = q.PowerThreshold
		}
	}
	return thr, true
}

func (o *OracleC14) AfterBlock(c *Chain, b *BlockCtx) []*Violation {
	var out []*Violation
	v := c.ViewOf(b.Ref)
	aggs := v.Aggregates()
	curFlag := map[string]bool{}
	byQ := map[string][]AggInfo{}
	for _, a := range aggs {
		curFlag[aggKey(a)] = a.Agg.Flagged
		byQ[string(a.QueryID)] = append(byQ[string(a.QueryID)], a)
	}
	defer func() { o.prevFlag = curFlag }()
	bridgeMod := modAddr("bridge")
	evs := b.AllBankEvents()

	for i, tr := range b.Txs {
		in := c.IntentOfTx(b, i)
		if in == nil || tr.Code != 0 {
			continue
		}
		signer := c.Accounts.Addr(in.Actor)
		for mi := range in.Msgs {
			m := &in.Msgs[mi]
			switch m.K {
			case "claim_deposits":
				who := signer
				if m.As != nil {
					who = c.Accounts.Addr(*m.As)
				}
				wantMint, wantTip := new(big.Int), new(big.Int)
				wantTo := map[string]*big.Int{}
				seen := map[uint64]bool{}
				for k, id := range m.Ids {
					if k >= len(m.Ids2) {
						break
					}
					o.count("claims_checked")
					if h0, dup := o.claimed[id]; dup || seen[id] {
						out = append(out, o.v(b.H, "claim", "ClaimDeposit", "deposit-claimed-twice", "deposit %d was turned into tokens at height %d and again at %d", id, h0, b.H))
						continue
					}
					seen[id] = true
					jv, mint, tp, rcpt, ok := o.judgeClaim(b.H, b.Time, v, byQ, o.prevFlag, "claim", id, m.Ids2[k])
					out = append(out, jv...)
					if !ok {
						continue
					}
					wantMint.Add(wantMint, mint)
					wantTip.Add(wantTip, tp)
					k2 := string(rcpt)
					if wantTo[k2] == nil {
						wantTo[k2] = new(big.Int)
					}
					wantTo[k2].Add(wantTo[k2], new(big.Int).Sub(mint, tp))
					o.claimed[id] = b.H
				}
				// observed money movement of this tx
				gotMint := new(big.Int)
				gotTo := map[string]*big.Int{}
				for _, ev := range evs {
					if ev.TxIdx != i {
						continue
					}
					if ev.Kind == "coinbase" && ev.To == bridgeMod {
						gotMint.Add(gotMint, ev.Amount.BigInt())
					}
					if ev.Kind == "transfer" && ev.From == bridgeMod {
						if a, err := sdk.AccAddressFromBech32(ev.To); err == nil {
							if gotTo[string(a)] == nil {
								gotTo[string(a)] = new(big.Int)
							}
							gotTo[string(a)].Add(gotTo[string(a)], ev.Amount.BigInt())
						}
					}
				}
				if gotMint.Cmp(wantMint) != 0 {
					cls := "mint-amount"
					if !wantMint.IsInt64() {
						cls += ":amount-beyond-int64"
					}
					out = append(out, o.v(b.H, "claim", "ClaimDeposit", cls, "claim tx %d minted %s, the reported amounts / 10^12 sum to %s", i, gotMint, wantMint))
				} else {
					// tip part to the claimer, rest to the reported recipient(s)
					want := map[string]*big.Int{}
					for k2, x := range wantTo {
						want[k2] = new(big.Int).Set(x)
					}
					if wantTip.Sign() > 0 {
						if want[string(who)] == nil {
							want[string(who)] = new(big.Int)
						}
						want[string(who)].Add(want[string(who)], wantTip)
					}
					for k2, x := range want {
						g := gotTo[k2]
						if g == nil {
							g = new(big.Int)
						}
						if g.Cmp(x) != 0 && x.Sign() > 0 {
							out = append(out, o.v(b.H, "claim", "ClaimDeposit", "payout-split", "claim tx %d paid %s to %s, expected %s (tip part to the claimer, rest to the reported recipient)", i, g, sdk.AccAddress([]byte(k2)), x))
							break
						}
					}
					if wantMint.Sign() > 0 {
						o.count("successful_claims_with_exact_amounts")
					}
				}
			case "withdraw_tokens":
				o.count("withdrawals_checked")
				amt := parseInt(m.N).BigInt()
				who := signer
				if m.As != nil {
					who = c.Accounts.Addr(*m.As)
				}
				// sender -amount (transfer to the bridge account) and burn of the same amount
				var sent, burned = new(big.Int), new(big.Int)
				for _, ev := range evs {
					if ev.TxIdx != i {
						continue
					}
					if ev.Kind == "transfer" && ev.To == bridgeMod && ev.From == who.String() {
						sent.Add(sent, ev.Amount.BigInt())
					}
					if ev.Kind == "burn" && ev.From == bridgeMod {
						burned.Add(burned, ev.Amount.BigInt())
					}
				}
				nWd := 0
				for _, mm := range in.Msgs {
					if mm.K == "withdraw_tokens" {
						nWd++
					}
				}
				if nWd == 1 && (sent.Cmp(amt) != 0 || burned.Cmp(amt) != 0) {
					out = append(out, o.v(b.H, "withdraw", "WithdrawTokens", "burn-ne-request", "withdrawal of %s: %s taken from the sender, %s burned", amt, sent, burned))
				}
			}
		}
	}
	if len(out) == 0 {
		out = append(out, o.claimProbes(c, b, v, byQ, curFlag)...)
	}
	// ---- withdrawal ids strictly increase by one; each id has an aggregate attesting (recipient, sender, amount)
	wd, err := b.Ref.App.BridgeKeeper.WithdrawalId.Get(v.ctx)
	if err == nil {
		nSucc := 0
		var succ []*MsgSpec
		var succSender []sdk.AccAddress
		for i, tr := range b.Txs {
			in := c.IntentOfTx(b, i)
			if in == nil || tr.Code != 0 {
				continue
			}
			for mi := range in.Msgs {
				if in.Msgs[mi].K == "withdraw_tokens" {
					nSucc++
					succ = append(succ, &in.Msgs[mi])
					who := c.Accounts.Addr(in.Actor)
					if in.Msgs[mi].As != nil {
						who = c.Accounts.Addr(*in.Msgs[mi].As)
					}
					succSender = append(succSender, who)
				}
			}
		}
		if o.haveWd && wd.Id != o.lastWdID+uint64(nSucc) {
			out = append(out, o.v(b.H, "withdraw", "WithdrawalId", "id-not-consecutive", "withdrawal id moved from %d to %d with %d successful withdrawals in the block", o.lastWdID, wd.Id, nSucc))
		}
		first := wd.Id - uint64(nSucc) + 1
		for k, m := range succ {
			id := first + uint64(k)
			l := byQ[string(QueryID(BridgeQueryData(false, id)))]
			if len(l) != 1 {
				out = append(out, o.v(b.H, "withdraw", "Aggregates", "withdrawal-aggregate-count", "withdrawal %d has %d aggregates under its query", id, len(l)))
				continue
			}
			bz, err := hexDecode(l[0].Agg.AggregateValue)
			if err != nil {
				continue
			}
			rc, sender, amt, _, err := DecodeAddrStringUintUint(bz)
			want := parseInt(m.N).BigInt()
			rcWant, _ := hexDecode(m.S)
			if len(rcWant) > 20 {
				rcWant = rcWant[len(rcWant)-20:]
			}
			if err != nil || amt.Cmp(want) != 0 || sender != succSender[k].String() || !bytes.Equal(bytes.TrimLeft(rc, "\x00"), bytes.TrimLeft(rcWant, "\x00")) {
				out = append(out, o.v(b.H, "withdraw", "Aggregates", "attested-value-mismatch", "withdrawal %d burned %s from %s for recipient %s, its aggregate attests (%x, %s, %s)", id, want, succSender[k], m.S, rc, sender, amt))
			} else {
				o.count("withdrawal_values_checked")
			}
		}
		o.lastWdID, o.haveWd = wd.Id, true
	} else if !o.haveWd {
		o.lastWdID, o.haveWd = 0, true
	}
	// ---- no reporter can create or influence an aggregate for a withdrawal query
	for id := uint64(0); id <= o.lastWdID+8; id++ {
		for _, a := range byQ[string(QueryID(BridgeQueryData(false, id)))] {
			if len(a.Agg.Reporters) > 0 || a.Agg.AggregateReporter != "" {
				out = append(out, o.v(b.H, "withdraw", "Aggregates", "reporter-aggregate-under-withdrawal-query", "withdrawal query %d carries an aggregate originating from reporters", id))
			}
		}
	}
	return out
}

func (o *OracleC14) End(c *Chain) []*Violation { return nil }

// judgeClaim evaluates the statement's claim guards for a claim of (deposit id, aggregate index) that the chain
// accepted. ok=false: the claim should not have been possible at all (violations say why).
func (o *OracleC14) judgeClaim(h int64, now time.Time, v *View, byQ map[string][]AggInfo, flags map[string]bool, oracle string, id, idx uint64) (out []*Violation, mint, tp *big.Int, rcpt sdk.AccAddress, ok bool) {
	l := byQ[string(QueryID(BridgeQueryData(true, id)))]
	if int(idx) >= len(l) {
		out = append(out, o.v(h, oracle, "ClaimDeposit", "claim-without-aggregate", "deposit %d index %d claimed but the deposit query has %d aggregates", id, idx, len(l)))
		return
	}
	a := l[idx]
	if flags[aggKey(a)] {
		out = append(out, o.v(h, oracle, "ClaimDeposit", "claimed-from-flagged-aggregate", "deposit %d claimed from an aggregate that was already flagged", id))
	}
	age := now.Sub(time.UnixMilli(int64(a.TsMs)))
	if age < 12*time.Hour {
		out = append(out, o.v(h, oracle, "ClaimDeposit", "claimed-too-young", "deposit %d claimed %s after its aggregate (12 h required)", id, age))
	} else if age == 12*time.Hour {
		o.count("grey_exactly_12h")
	}
	if thr, okT := thresholdAt(v, a.TsMs); okT && a.Agg.ReporterPower < thr {
		out = append(out, o.v(h, oracle, "ClaimDeposit", "claimed-below-threshold", "deposit %d claimed from an aggregate with power %d, the two-thirds threshold in force at report time was %d", id, a.Agg.ReporterPower, thr))
	}
	raw := a.Agg.AggregateValue
	if len(raw) >= 2 && raw[0] == '0' && (raw[1] == 'x' || raw[1] == 'X') {
		raw = raw[2:]
	}
	bz, err := hexDecode(raw)
	if err != nil {
		out = append(out, o.v(h, oracle, "ClaimDeposit", "claimed-undecodable-value", "deposit %d claimed from a value that is not hex", id))
		return
	}
	_, to, amt, tip, err := DecodeAddrStringUintUint(bz)
	if err != nil {
		out = append(out, o.v(h, oracle, "ClaimDeposit", "claimed-undecodable-value", "deposit %d claimed from a value that does not decode as (address,string,uint256,uint256)", id))
		return
	}
	rcpt, err = sdk.AccAddressFromBech32(to)
	if err != nil {
		out = append(out, o.v(h, oracle, "ClaimDeposit", "claimed-to-invalid-recipient", "deposit %d claimed although the reported recipient %q is not an address", id, truncate(to, 40)))
		return
	}
	mint = new(big.Int).Div(amt, e12)
	tp = new(big.Int).Div(tip, e12)
	if tp.Cmp(mint) > 0 {
		out = append(out, o.v(h, oracle, "ClaimDeposit", "claimed-tip-above-amount", "deposit %d claimed although the tip %s exceeds the amount %s", id, tp, mint))
		return
	}
	return out, mint, tp, rcpt, true
}

// claimProbes: on cache contexts (nothing is written back) every (deposit id, aggregate index) the state knows is
// claimed through the real message server. A claim the chain accepts must satisfy the statement's guards, mint
// exactly the reported amount, and make every further claim of that id fail — in a later message and inside the
// same message.
func (o *OracleC14) claimProbes(c *Chain, b *BlockCtx, v *View, byQ map[string][]AggInfo, curFlag map[string]bool) []*Violation {
	var out []*Violation
	app := b.Ref.App
	ms := bridgekeeper.NewMsgServerImpl(app.BridgeKeeper)
	creator := c.Accounts.Addr(0).String()
	supply := func(ctx sdk.Context) *big.Int { return app.BankKeeper.GetSupply(ctx, Denom).Amount.BigInt() }
	// counterfactual branch: the same state with one more validator-set checkpoint, later than every aggregate, whose
	// threshold is 1 (what a large stake exit after the report would record). The threshold "in force at report time"
	// does not change by it, so no claim may become possible that the real state refuses for lack of power.
	later, _ := v.ctx.CacheContext()
	bk := app.BridgeKeeper
	haveLater := false
	if latest, err := bk.LatestCheckpointIdx.Get(later); err == nil {
		if _, err := bk.ValidatorCheckpointIdxMap.Get(later, latest.Index); err == nil {
			ts := uint64(b.Time.UnixMilli()) + 1
			nx := latest.Index + 1
			e1 := bk.ValidatorCheckpointParamsMap.Set(later, ts, bridgetypes.ValidatorCheckpointParams{Checkpoint: make([]byte, 32), ValsetHash: make([]byte, 32), Timestamp: ts, PowerThreshold: 1})
			e2 := bk.ValidatorCheckpointIdxMap.Set(later, nx, bridgetypes.CheckpointTimestamp{Timestamp: ts})
			e3 := bk.ValsetTimestampToIdxMap.Set(later, ts, bridgetypes.CheckpointIdx{Index: nx})
			e4 := bk.LatestCheckpointIdx.Set(later, bridgetypes.CheckpointIdx{Index: nx})
			haveLater = e1 == nil && e2 == nil && e3 == nil && e4 == nil
		}
	}
	for id := uint64(0); id <= 6; id++ {
		l := byQ[string(QueryID(BridgeQueryData(true, id)))]
		for k := 0; k < len(l) && k < 4; k++ {
			if haveLater {
				cf, _ := later.CacheContext()
				err := probeMsg(cf, func(x sdk.Context) error {
					_, e := ms.ClaimDeposits(x, &bridgetypes.MsgClaimDepositsRequest{Creator: creator, DepositIds: []uint64{id}, Indices: []uint64{uint64(k)}})
					return e
				})
				o.count("probe_claims_with_later_checkpoint")
				if err == nil {
					if thr, okT := thresholdAt(v, l[k].TsMs); okT && l[k].Agg.ReporterPower < thr {
						out = append(out, o.v(b.H, "claim-probe", "ClaimDeposit", "claimed-below-threshold:depends-on-later-checkpoint", "deposit %d index %d: aggregate power %d is below the threshold %d in force at report time; the claim is refused on the real state but accepted once a later checkpoint with a lower threshold exists", id, k, l[k].Agg.ReporterPower, thr))
						return out
					}
				}
			}
			cctx, _ := v.ctx.CacheContext()
			s0 := supply(cctx)
			err := probeMsg(cctx, func(x sdk.Context) error {
				_, e := ms.ClaimDeposits(x, &bridgetypes.MsgClaimDepositsRequest{Creator: creator, DepositIds: []uint64{id}, Indices: []uint64{uint64(k)}})
				return e
			})
			o.count("probe_claims")
			if err != nil {
				continue
			}
			o.count("probe_claims_accepted")
			if h0, dup := o.claimed[id]; dup {
				out = append(out, o.v(b.H, "claim-probe", "ClaimDeposit", "deposit-claimed-twice", "deposit %d was turned into tokens at height %d and can be claimed again on the state after block %d", id, h0, b.H))
				return out
			}
			jv, mint, _, _, ok := o.judgeClaim(b.H, b.Time, v, byQ, curFlag, "claim-probe", id, uint64(k))
			out = append(out, jv...)
			if !ok || len(jv) > 0 {
				return out
			}
			if got := new(big.Int).Sub(supply(cctx), s0); got.Cmp(mint) != 0 {
				cls := "mint-amount"
				if !mint.IsInt64() {
					cls += ":amount-beyond-int64"
				}
				out = append(out, o.v(b.H, "claim-probe", "ClaimDeposit", cls, "claim of deposit %d index %d minted %s, the reported amount / 10^12 is %s", id, k, got, mint))
				return out
			}
			// a second claim of the same deposit (any index) in a later message
			for k2 := 0; k2 < len(l) && k2 < 4; k2++ {
				if err := probeMsg(cctx, func(x sdk.Context) error {
					_, e := ms.ClaimDeposits(x, &bridgetypes.MsgClaimDepositsRequest{Creator: creator, DepositIds: []uint64{id}, Indices: []uint64{uint64(k2)}})
					return e
				}); err == nil {
					out = append(out, o.v(b.H, "claim-probe", "ClaimDeposit", "deposit-claimed-twice", "deposit %d can be claimed (index %d) and then claimed again (index %d) on the state after block %d", id, k, k2, b.H))
					return out
				}
			}
			// the same id twice inside one message: all or nothing, never two mints
			cctx2, _ := v.ctx.CacheContext()
			s1 := supply(cctx2)
			err = probeMsg(cctx2, func(x sdk.Context) error {
				_, e := ms.ClaimDeposits(x, &bridgetypes.MsgClaimDepositsRequest{Creator: creator, DepositIds: []uint64{id, id}, Indices: []uint64{uint64(k), uint64(k)}})
				return e
			})
			if got2 := new(big.Int).Sub(supply(cctx2), s1); err == nil && got2.Cmp(mint) > 0 {
				out = append(out, o.v(b.H, "claim-probe", "ClaimDeposit", "deposit-claimed-twice", "one message listing deposit %d twice is accepted on the state after block %d and mints %s (a single claim mints %s)", id, b.H, got2, mint))
				return out
			}
			o.count("probe_repeat_claims_refused")
		}
	}
	return out
}
