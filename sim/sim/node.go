package sim

import (
	"encoding/hex"
	"fmt"
	"os"
	"path/filepath"
	"strings"
	"time"

	abci "github.com/cometbft/cometbft/abci/types"
	dbm "github.com/cosmos/cosmos-db"
	"github.com/spf13/viper"
	"github.com/tellor-io/layer/app"

	"cosmossdk.io/log"
	pruningtypes "cosmossdk.io/store/pruning/types"

	"github.com/cosmos/cosmos-sdk/baseapp"
	"github.com/cosmos/cosmos-sdk/crypto/keyring"
	simtestutil "github.com/cosmos/cosmos-sdk/testutil/sims"
	sdk "github.com/cosmos/cosmos-sdk/types"
)

// simLogger captures what baseapp only logs: recovered panics inside handlers.
type simLogger struct {
	node *Node
	kv   []any
}

func (l *simLogger) Info(msg string, kv ...any)  {}
func (l *simLogger) Warn(msg string, kv ...any)  {}
func (l *simLogger) Debug(msg string, kv ...any) {}
func (l *simLogger) Error(msg string, kv ...any) {
	if os.Getenv("LAYERSIM_LOG") != "" {
		fmt.Fprintf(os.Stderr, "[node %d] ERROR %s %v\n", l.node.Idx, msg, truncKV(kv))
	}
	// baseapp recovers panics of the four proposal / vote-extension handlers and only logs them
	// ("panic recovered in runTx" is ordinary out-of-gas handling and not of interest here)
	if strings.HasPrefix(msg, "panic recovered in PrepareProposal") || strings.HasPrefix(msg, "panic recovered in ProcessProposal") ||
		strings.HasPrefix(msg, "panic recovered in ExtendVote") || strings.HasPrefix(msg, "panic recovered in VerifyVoteExtension") {
		s := msg
		for i := 0; i+1 < len(kv); i += 2 {
			if k, ok := kv[i].(string); ok && (k == "panic" || k == "err" || k == "error") {
				s += fmt.Sprintf(" %s=%v", k, kv[i+1])
			}
		}
		l.node.Panics = append(l.node.Panics, s)
	}
}
func (l *simLogger) With(kv ...any) log.Logger {
	return &simLogger{node: l.node, kv: append(l.kv, kv...)}
}
func (l *simLogger) Impl() any { return l }

type MpTx struct {
	Bytes    []byte
	IntentID int
}

// Node is one simulated full node: a real app.App over a simulator-owned in-memory DB.
type Node struct {
	Idx     int
	ConsIdx int // index into Keys.ValCons/ValOp; -1 for a pure witness
	Cfg     NodeCfg
	DB      *dbm.MemDB
	sdb     *simDB // the view of DB handed to the application (snapshot iterators, see simdb.go)
	App     *app.App
	Up      bool
	Mempool []MpTx
	Panics  []string // recovered handler panics observed through the logger
	home    string
	krDir   string
	kr      keyring.Keyring
	chain   *Chain
}

func (n *Node) Height() int64 {
	if n.App == nil {
		return -1
	}
	return n.App.LastBlockHeight()
}

func (n *Node) newApp() *app.App {
	opts := []func(*baseapp.BaseApp){baseapp.SetChainID(n.chain.Cfg.ChainID)}
	switch n.Cfg.Pruning {
	case "nothing", "everything", "default":
		opts = append(opts, baseapp.SetPruning(pruningtypes.NewPruningOptionsFromString(n.Cfg.Pruning)))
	}
	if n.Cfg.IAVLCacheSize > 0 {
		opts = append(opts, baseapp.SetIAVLCacheSize(n.Cfg.IAVLCacheSize))
	}
	if n.Cfg.DisableFast {
		opts = append(opts, baseapp.SetIAVLDisableFastNode(true))
	}
	if n.Cfg.MinGasPrice != "" {
		opts = append(opts, baseapp.SetMinGasPrices(n.Cfg.MinGasPrice))
	}
	a := app.New(&simLogger{node: n}, n.simdb(), nil, true, simtestutil.NewAppOptionsWithFlagHome(n.home), opts...)
	if n.ConsIdx >= 0 && !n.chain.Cfg.KeyringShipped {
		app.VerifSetVoteExtKeyring(a, n.kr)
	}
	return a
}

const keyName = "val"

func (n *Node) setupKeyring() error {
	if n.ConsIdx < 0 {
		return nil
	}
	op := n.chain.Keys.ValOp[n.ConsIdx]
	cdc := n.chain.cdcApp.AppCodec()
	if n.chain.Cfg.KeyringShipped {
		kr, err := keyring.New(sdk.KeyringServiceName(), "test", n.krDir, nil, cdc)
		if err != nil {
			return err
		}
		return kr.ImportPrivKeyHex(keyName, hex.EncodeToString(op.Bytes()), "secp256k1")
	}
	kr := keyring.NewInMemory(cdc)
	if err := kr.ImportPrivKeyHex(keyName, hex.EncodeToString(op.Bytes()), "secp256k1"); err != nil {
		return err
	}
	n.kr = kr
	return nil
}

// selectKeyring points the process-global viper at this node's keyring (shipped path only reads it lazily).
func (n *Node) selectKeyring() {
	viper.Set("keyring-backend", "test")
	viper.Set("keyring-dir", n.krDir)
	viper.Set("key-name", keyName)
}

func (n *Node) initChain() error {
	_, err := n.App.InitChain(&abci.RequestInitChain{
		ChainId: n.chain.Cfg.ChainID, ConsensusParams: ConsensusParams(), AppStateBytes: n.chain.GenBytes,
		InitialHeight: 1, Time: time.Unix(n.chain.Cfg.GenesisUnix, 0).UTC(),
	})
	return err
}

// Crash drops everything that is not durable.
func (n *Node) Crash() {
	if n.App != nil {
		app.VerifForget(n.App)
	}
	n.App = nil
	n.Up = false
	n.Mempool = nil
}

// Restart builds a new app over the surviving DB and replays stored blocks (CometBFT handshake rule).
func (n *Node) Restart() error {
	n.App = n.newApp()
	n.Up = true
	if n.App.LastBlockHeight() == 0 {
		if err := n.initChain(); err != nil {
			return fmt.Errorf("re-InitChain: %w", err)
		}
	}
	return nil
}

func newNode(c *Chain, idx, consIdx int, cfg NodeCfg, root string) (*Node, error) {
	n := &Node{Idx: idx, ConsIdx: consIdx, Cfg: cfg, DB: dbm.NewMemDB(), chain: c,
		home: filepath.Join(root, fmt.Sprintf("home%d", idx)), krDir: filepath.Join(root, fmt.Sprintf("kr%d", idx))}
	if err := os.MkdirAll(n.home, 0o755); err != nil {
		return nil, err
	}
	return n, nil
}

func truncKV(kv []any) []string {
	var out []string
	for _, x := range kv {
		out = append(out, truncate(fmt.Sprint(x), 300))
	}
	return out
}

// simdb returns the application's view of the node's durable image (one wrapper per underlying MemDB).
func (n *Node) simdb() simDB {
	if n.sdb == nil || n.sdb.MemDB != n.DB {
		d := newSimDB(n.DB)
		n.sdb = &d
	}
	return *n.sdb
}
