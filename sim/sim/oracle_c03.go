package sim

import (
	"fmt"
	"math/big"

	"cosmossdk.io/math"

	bridgekeeper "github.com/tellor-io/layer/x/bridge/keeper"
	bridgetypes "github.com/tellor-io/layer/x/bridge/types"

	sdk "github.com/cosmos/cosmos-sdk/types"
	authtypes "github.com/cosmos/cosmos-sdk/x/auth/types"
	bankkeeper "github.com/cosmos/cosmos-sdk/x/bank/keeper"
)

func modAddr(name string) string { return authtypes.NewModuleAddress(name).String() }

const (
	dailyMintRate = 146_940_000 // loya per day (property C03: "the fixed daily rate")
	msPerDay      = 86_400_000
)

// OracleC03 — supply changes only by the documented, exactly quantified events.
type OracleC03 struct {
	counters
	prevSupply  math.Int
	havePrev    bool
	initAtEnd   map[int64]bool // height -> minter initialised at the end of that block (observed switch)
	totalMinted math.Int
	mintStartMs int64
	claimedIDs  map[uint64]bool // a deposit is a supply event once
}

func NewOracleC03() *OracleC03 {
	return &OracleC03{counters: newCounters(), initAtEnd: map[int64]bool{}, totalMinted: math.ZeroInt(), claimedIDs: map[uint64]bool{}}
}

func (o *OracleC03) ID() string { return "C03" }

func (o *OracleC03) v(h int64, site, class, f string, a ...any) *Violation {
	return &Violation{Property: "C03", Oracle: "supply", Site: site, Class: class, Height: h, Msg: fmt.Sprintf(f, a...)}
}

func floorDiv(a *big.Int, b int64) *big.Int { return new(big.Int).Div(a, big.NewInt(b)) }

func (o *OracleC03) AfterBlock(c *Chain, b *BlockCtx) []*Violation {
	var out []*Violation
	v := c.ViewOf(b.Ref)
	supply := v.Supply()
	minter, err := b.Ref.App.MintKeeper.Minter.Get(v.ctx)
	o.initAtEnd[b.H] = err == nil && minter.Initialized
	defer func() { o.prevSupply = supply; o.havePrev = true }()

	evs := b.AllBankEvents()
	mintMod, oracleMod, bridgeMod, disputeMod := modAddr("mint"), modAddr("oracle"), modAddr("bridge"), modAddr("dispute")
	tbr, feeColl := modAddr("time_based_rewards"), modAddr("fee_collector")

	// ---- predicted mint (inputs: block times and the governance switch)
	pred := big.NewInt(0)
	if o.initAtEnd[b.H-2] && b.H >= 3 {
		dms := b.Time.Sub(b.PrevTime).Milliseconds()
		pred = floorDiv(new(big.Int).Mul(big.NewInt(dailyMintRate), big.NewInt(dms)), msPerDay)
		if o.mintStartMs == 0 {
			o.mintStartMs = b.PrevTime.UnixMilli()
		}
	}
	obsMint := math.ZeroInt()
	toTBR, toFee := math.ZeroInt(), math.ZeroInt()
	delta := new(big.Int) // predicted supply delta
	delta.Add(delta, pred)
	obsDelta := math.ZeroInt()

	// per-tx expectations
	type exp struct{ burnLo, burnHi, mint *big.Int }
	perTx := map[int]*exp{}
	for i, tr := range b.Txs {
		in := c.IntentOfTx(b, i)
		if in == nil || tr.Code != 0 {
			continue
		}
		e := &exp{big.NewInt(0), big.NewInt(0), big.NewInt(0)}
		for mi := range in.Msgs {
			m := &in.Msgs[mi]
			switch m.K {
			case "tip":
				amt := parseInt(m.N).BigInt()
				lo := floorDiv(new(big.Int).Mul(amt, big.NewInt(2)), 100)
				hi := new(big.Int).Set(lo)
				if new(big.Int).Mod(new(big.Int).Mul(amt, big.NewInt(2)), big.NewInt(100)).Sign() != 0 {
					hi.Add(hi, big.NewInt(1))
				}
				e.burnLo.Add(e.burnLo, lo)
				e.burnHi.Add(e.burnHi, hi)
				o.count("tips_checked")
			case "withdraw_tokens":
				amt := parseInt(m.N).BigInt()
				e.burnLo.Add(e.burnLo, amt)
				e.burnHi.Add(e.burnHi, amt)
				o.count("withdrawals_checked")
			case "claim_deposits":
				for k, id := range m.Ids {
					if k >= len(m.Ids2) {
						break
					}
					if o.claimedIDs[id] {
						// a deposit already turned into tokens is not a documented supply event a second time
						o.count("repeated_claims_expect_zero")
						continue
					}
					amt, _, _, ok := depositAggregate(v, id, m.Ids2[k])
					if ok {
						o.claimedIDs[id] = true
					}
					if !ok {
						out = append(out, o.v(b.H, "claim", "claim-without-aggregate", "tx %d: successful claim of deposit %d index %d but no decodable aggregate exists there", i, id, m.Ids2[k]))
						continue
					}
					e.mint.Add(e.mint, floorDiv(amt, 1_000_000_000_000))
					o.count("claims_checked")
				}
			}
		}
		perTx[i] = e
	}

	// ---- attribute every coinbase / burn event
	obsTxBurn := map[int]*big.Int{}
	obsTxMint := map[int]*big.Int{}
	disputeBurn := big.NewInt(0)
	for _, ev := range evs {
		switch ev.Kind {
		case "coinbase":
			obsDelta = obsDelta.Add(ev.Amount)
			switch {
			case ev.To == mintMod && ev.TxIdx < 0 && ev.Mode == "BeginBlock":
				obsMint = obsMint.Add(ev.Amount)
			case ev.To == bridgeMod && ev.TxIdx >= 0 && perTx[ev.TxIdx] != nil && perTx[ev.TxIdx].mint.Sign() > 0:
				if obsTxMint[ev.TxIdx] == nil {
					obsTxMint[ev.TxIdx] = big.NewInt(0)
				}
				obsTxMint[ev.TxIdx].Add(obsTxMint[ev.TxIdx], ev.Amount.BigInt())
			default:
				if ev.Amount.IsPositive() {
					out = append(out, o.v(b.H, "coinbase", "unattributed-mint", "coins minted outside the documented events: minter=%s amount=%s tx=%d mode=%q", ev.To, ev.Amount, ev.TxIdx, ev.Mode))
				}
			}
		case "burn":
			obsDelta = obsDelta.Sub(ev.Amount)
			switch {
			case (ev.From == oracleMod || ev.From == bridgeMod) && ev.TxIdx >= 0 && perTx[ev.TxIdx] != nil && perTx[ev.TxIdx].burnHi.Sign() > 0:
				if obsTxBurn[ev.TxIdx] == nil {
					obsTxBurn[ev.TxIdx] = big.NewInt(0)
				}
				obsTxBurn[ev.TxIdx].Add(obsTxBurn[ev.TxIdx], ev.Amount.BigInt())
			case c.Cfg.SlashDowntimePct > 0 && ev.TxIdx < 0 && (ev.From == modAddr("bonded_tokens_pool") || ev.From == modAddr("not_bonded_tokens_pool")):
				// this run switched the SDK's downtime slashing on (outside the statement's documented events, see
				// DESIGN section 4 assumption): the burn is accounted for, not judged
				disputeBurn.Add(disputeBurn, ev.Amount.BigInt())
				o.count("sdk_slash_burns(not judged)")
			case ev.From == disputeMod && (ev.Mode == "BeginBlock" || c.txHasKind(b, ev.TxIdx, "withdraw_fee_refund")):
				disputeBurn.Add(disputeBurn, ev.Amount.BigInt())
				o.count("dispute_burn_events")
			default:
				if ev.Amount.IsPositive() {
					out = append(out, o.v(b.H, "burn", "unattributed-burn", "coins burned outside the documented events: burner=%s amount=%s tx=%d mode=%q", ev.From, ev.Amount, ev.TxIdx, ev.Mode))
				}
			}
		case "transfer":
			// InputOutputCoins (multi-send) emits transfer events without a sender attribute
			if (ev.From == mintMod || ev.From == "") && ev.TxIdx < 0 && ev.Mode == "BeginBlock" {
				if ev.To == tbr {
					toTBR = toTBR.Add(ev.Amount)
				} else if ev.To == feeColl {
					toFee = toFee.Add(ev.Amount)
				}
			}
		}
	}
	// mint amount and split
	if obsMint.BigInt().Cmp(pred) != 0 {
		out = append(out, o.v(b.H, "mint", "mint-amount", "block %d: minted %s, expected %s (= %d loya/day x %d ms; minting initialised=%v)", b.H, obsMint, pred, dailyMintRate, b.Time.Sub(b.PrevTime).Milliseconds(), o.initAtEnd[b.H-2]))
	} else if pred.Sign() > 0 {
		o.count("mint_blocks_checked")
		q := floorDiv(pred, 4)
		qc := new(big.Int).Set(q)
		if new(big.Int).Mod(pred, big.NewInt(4)).Sign() != 0 {
			qc.Add(qc, big.NewInt(1))
		}
		if !(toFee.BigInt().Cmp(q) == 0 || toFee.BigInt().Cmp(qc) == 0) || toTBR.Add(toFee).BigInt().Cmp(pred) != 0 {
			out = append(out, o.v(b.H, "mint", "mint-split", "block %d: provision %s split as reward pool %s / fee pool %s, expected three quarters / one quarter", b.H, pred, toTBR, toFee))
		}
		o.totalMinted = o.totalMinted.Add(obsMint)
	}
	// per-tx amounts
	for i, e := range perTx {
		ob := obsTxBurn[i]
		if ob == nil {
			ob = big.NewInt(0)
		}
		if ob.Cmp(e.burnLo) < 0 || ob.Cmp(e.burnHi) > 0 {
			out = append(out, o.v(b.H, "tx-burn", "burn-amount", "tx %d (%s): burned %s, expected between %s and %s (2%% per tip, full amount per withdrawal)", i, intentKinds(c.IntentOfTx(b, i)), ob, e.burnLo, e.burnHi))
		}
		delta.Sub(delta, ob)
		om := obsTxMint[i]
		if om == nil {
			om = big.NewInt(0)
		}
		if om.Cmp(e.mint) != 0 {
			out = append(out, o.v(b.H, "tx-mint", "claim-amount", "tx %d: claim minted %s, expected %s (reported amount / 10^12)", i, om, e.mint))
		}
		delta.Add(delta, om)
	}
	delta.Sub(delta, disputeBurn)
	// supply equation
	if o.havePrev {
		actual := supply.Sub(o.prevSupply).BigInt()
		if actual.Cmp(delta) != 0 {
			out = append(out, o.v(b.H, "supply-delta", "unexplained-delta", "block %d: total supply changed by %s, documented events explain %s (bank events net %s)", b.H, actual, delta, obsDelta))
		}
		o.count("blocks_checked")
	}
	// sum of balances = supply (the SDK's own invariant, evaluated on the committed state)
	if msg, broken := bankkeeper.TotalSupply(b.Ref.App.BankKeeper)(v.ctx); broken {
		out = append(out, o.v(b.H, "bank-invariant", "balances-ne-supply", "%s", truncate(msg, 300)))
	}
	// cumulative inflation bound
	if o.mintStartMs > 0 {
		elapsed := b.Time.UnixMilli() - o.mintStartMs
		bound := floorDiv(new(big.Int).Mul(big.NewInt(dailyMintRate), big.NewInt(elapsed)), msPerDay)
		if o.totalMinted.BigInt().Cmp(bound) > 0 {
			out = append(out, o.v(b.H, "mint", "inflation-bound", "cumulative minted %s exceeds rate x elapsed = %s", o.totalMinted, bound))
		}
	}
	if len(out) == 0 {
		out = append(out, o.claimSupplyProbe(c, b, v)...)
	}
	if len(out) == 0 && len(o.samples) < 2 && (pred.Sign() > 0 || len(perTx) > 0) {
		o.sample(fmt.Sprintf("h=%d dt=%dms mint=%s tx-expectations=%d disputeBurn=%s supply=%s", b.H, b.Time.Sub(b.PrevTime).Milliseconds(), pred, len(perTx), disputeBurn, supply))
	}
	return out
}

func (o *OracleC03) End(c *Chain) []*Violation { return nil }

// claimSupplyProbe: on a cache context (nothing written back) each known deposit is claimed through the real
// message server — once, then again, and twice inside one message. However the chain answers, the supply may
// grow by the reported amount / 10^12 at most once per deposit.
func (o *OracleC03) claimSupplyProbe(c *Chain, b *BlockCtx, v *View) []*Violation {
	app := b.Ref.App
	qids := map[string]uint64{}
	for id := uint64(0); id <= 6; id++ {
		qids[string(QueryID(BridgeQueryData(true, id)))] = id
	}
	n := map[uint64]int{}
	for _, a := range v.Aggregates() {
		if id, ok := qids[string(a.QueryID)]; ok {
			n[id]++
		}
	}
	if len(n) == 0 {
		return nil
	}
	ms := bridgekeeper.NewMsgServerImpl(app.BridgeKeeper)
	creator := c.Accounts.Addr(0).String()
	supply := func(ctx sdk.Context) *big.Int { return app.BankKeeper.GetSupply(ctx, Denom).Amount.BigInt() }
	for id := uint64(0); id <= 6; id++ {
		for k := 0; k < n[id] && k < 4; k++ {
			amt, _, ok, _ := depositAggregate(v, id, uint64(k))
			if !ok {
				continue
			}
			want := floorDiv(amt, 1_000_000_000_000)
			for _, shape := range [][]uint64{{id}, {id, id}, {id, id, id}} {
				cctx, _ := v.ctx.CacheContext()
				s0 := supply(cctx)
				idx := make([]uint64, len(shape))
				for i := range idx {
					idx[i] = uint64(k)
				}
				accepted := 0
				for rep := 0; rep < 2; rep++ {
					if err := probeMsg(cctx, func(x sdk.Context) error {
						_, e := ms.ClaimDeposits(x, &bridgetypes.MsgClaimDepositsRequest{Creator: creator, DepositIds: shape, Indices: idx})
						return e
					}); err == nil {
						accepted++
					}
				}
				o.count("probe_claim_shapes")
				got := new(big.Int).Sub(supply(cctx), s0)
				if accepted == 0 {
					if got.Sign() != 0 {
						return []*Violation{o.v(b.H, "claim-probe", "supply-moved-by-refused-claim", "refused claims of deposit %d changed the supply by %s", id, got)}
					}
					continue
				}
				o.count("probe_claims_accepted")
				if o.claimedIDs[id] {
					return []*Violation{o.v(b.H, "claim-probe", "deposit-minted-again", "deposit %d was already turned into tokens, yet a further claim is accepted on the state after block %d and mints %s", id, b.H, got)}
				}
				if got.Cmp(want) != 0 {
					return []*Violation{o.v(b.H, "claim-probe", "deposit-minted-more-than-once", "claiming deposit %d (index %d) %d times per message, message sent twice: supply grows by %s, the reported amount / 10^12 is %s", id, k, len(shape), got, want)}
				}
			}
		}
	}
	return nil
}

func (c *Chain) txHasKind(b *BlockCtx, i int, kind string) bool {
	in := c.IntentOfTx(b, i)
	if in == nil {
		return false
	}
	for _, m := range in.Msgs {
		if m.K == kind {
			return true
		}
	}
	return false
}

func intentKinds(in *Intent) string {
	if in == nil {
		return "?"
	}
	s := ""
	for i, m := range in.Msgs {
		if i > 0 {
			s += "+"
		}
		s += m.K
	}
	return s
}

// depositAggregate returns the decoded (amount, tip, recipient) of the index-th aggregate of a deposit query.
func depositAggregate(v *View, id, index uint64) (amt, tip *big.Int, ok bool, found bool) {
	qid := QueryID(BridgeQueryData(true, id))
	var list []AggInfo
	for _, a := range v.Aggregates() {
		if eqBytes(a.QueryID, qid) {
			list = append(list, a)
		}
	}
	if index >= uint64(len(list)) {
		return nil, nil, false, false
	}
	raw := list[index].Agg.AggregateValue
	if len(raw) >= 2 && raw[0] == '0' && (raw[1] == 'x' || raw[1] == 'X') {
		raw = raw[2:]
	}
	bz, err := hexDecode(raw)
	if err != nil {
		return nil, nil, false, false
	}
	_, _, a, t, err := DecodeAddrStringUintUint(bz)
	if err != nil {
		return nil, nil, false, false
	}
	return a, t, true, true
}
