package sim

// OraclesFor returns every oracle; all run in every profile.
func OraclesFor(c *Chain) []Oracle {
	return []Oracle{NewOracleC03(), NewOracleC04(), NewOracleC05(), NewOracleC06(), NewOracleC07(), NewOracleC08(), NewOracleC09(), NewOracleC10()}
}
