package sim

// OraclesFor returns every oracle; all run in every profile.
func OraclesFor(c *Chain) []Oracle {
	dt := NewDisputeTracker()
	return []Oracle{NewOracleC03(), NewOracleC04(), NewOracleC05(), NewOracleC06(), NewOracleC07(), NewOracleC08(), NewOracleC09(), NewOracleC10(),
		NewOracleC11(dt), NewOracleC12(dt), NewOracleC13(dt), NewOracleC14(), NewOracleC16(), NewOracleC17(), NewOracleC18(), NewOracleC19()}
}
