package sim

import (
	"errors"
	"math/big"

	"golang.org/x/crypto/sha3"
)

// Minimal, independent ABI encoder/decoder (no go-ethereum/accounts/abi) for the
// handful of tuple shapes the simulator and evmmodel need. Written from the
// Solidity ABI specification: head/tail encoding, 32-byte words, dynamic types
// (string, bytes, T[]) referenced by offset from the start of the enclosing tuple.

type abiVal struct {
	dynamic bool
	enc     []byte // static: 32*n bytes; dynamic: the tail encoding
}

func word(b []byte) []byte {
	w := make([]byte, 32)
	copy(w[32-len(b):], b)
	return w
}

func AbiUint(x *big.Int) abiVal {
	return abiVal{enc: word(x.Bytes())}
}

func AbiUint64(x uint64) abiVal { return AbiUint(new(big.Int).SetUint64(x)) }

func AbiBool(b bool) abiVal {
	if b {
		return AbiUint64(1)
	}
	return AbiUint64(0)
}

func AbiAddress(a []byte) abiVal { return abiVal{enc: word(a)} }

func AbiBytes32(b []byte) abiVal {
	w := make([]byte, 32)
	copy(w, b)
	return abiVal{enc: w}
}

func AbiBytes(b []byte) abiVal {
	out := word(new(big.Int).SetInt64(int64(len(b))).Bytes())
	out = append(out, b...)
	if pad := (32 - len(b)%32) % 32; pad > 0 {
		out = append(out, make([]byte, pad)...)
	}
	return abiVal{dynamic: true, enc: out}
}

func AbiString(s string) abiVal { return AbiBytes([]byte(s)) }

// AbiTupleArray encodes T[] where every element is a static tuple already encoded (concatenated words).
func AbiStaticArray(elems [][]byte) abiVal {
	out := word(new(big.Int).SetInt64(int64(len(elems))).Bytes())
	for _, e := range elems {
		out = append(out, e...)
	}
	return abiVal{dynamic: true, enc: out}
}

// AbiEncode = abi.encode(v...)
func AbiEncode(vs ...abiVal) []byte {
	headLen := 0
	for _, v := range vs {
		if v.dynamic {
			headLen += 32
		} else {
			headLen += len(v.enc)
		}
	}
	var head, tail []byte
	for _, v := range vs {
		if v.dynamic {
			off := headLen + len(tail)
			head = append(head, word(new(big.Int).SetInt64(int64(off)).Bytes())...)
			tail = append(tail, v.enc...)
		} else {
			head = append(head, v.enc...)
		}
	}
	return append(head, tail...)
}

func Keccak(b []byte) []byte {
	h := sha3.NewLegacyKeccak256()
	h.Write(b)
	return h.Sum(nil)
}

// QueryData builds abi.encode(string queryType, bytes args).
func QueryData(queryType string, args []byte) []byte {
	return AbiEncode(AbiString(queryType), AbiBytes(args))
}

func SpotQueryData(asset, currency string) ([]byte, error) {
	return QueryData("SpotPrice", AbiEncode(AbiString(asset), AbiString(currency))), nil
}

// BridgeQueryData: abi.encode("TRBBridge", abi.encode(bool toLayer, uint256 id))
func BridgeQueryData(toLayer bool, id uint64) []byte {
	return QueryData("TRBBridge", AbiEncode(AbiBool(toLayer), AbiUint64(id)))
}

func QueryID(queryData []byte) []byte { return Keccak(queryData) }

// ---- decoding (strict: canonical encodings only) ----

type abiReader struct{ b []byte }

func (r abiReader) wordAt(off int) ([]byte, error) {
	if off < 0 || off+32 > len(r.b) {
		return nil, errors.New("abi: out of range")
	}
	return r.b[off : off+32], nil
}

func (r abiReader) uintAt(off int) (*big.Int, error) {
	w, err := r.wordAt(off)
	if err != nil {
		return nil, err
	}
	return new(big.Int).SetBytes(w), nil
}

func (r abiReader) bytesAt(headOff int) ([]byte, error) {
	o, err := r.uintAt(headOff)
	if err != nil {
		return nil, err
	}
	if !o.IsInt64() || o.Int64() > int64(len(r.b)) {
		return nil, errors.New("abi: bad offset")
	}
	l, err := r.uintAt(int(o.Int64()))
	if err != nil {
		return nil, err
	}
	if !l.IsInt64() || l.Int64() > int64(len(r.b)) {
		return nil, errors.New("abi: bad length")
	}
	s := int(o.Int64()) + 32
	e := s + int(l.Int64())
	if e > len(r.b) {
		return nil, errors.New("abi: data out of range")
	}
	return r.b[s:e], nil
}

// DecodeDepositValue decodes (address, string, uint256, uint256).
func DecodeAddrStringUintUint(b []byte) (addr []byte, s string, a, t *big.Int, err error) {
	r := abiReader{b}
	w, err := r.wordAt(0)
	if err != nil {
		return
	}
	addr = w[12:]
	sb, err := r.bytesAt(32)
	if err != nil {
		return
	}
	s = string(sb)
	if a, err = r.uintAt(64); err != nil {
		return
	}
	t, err = r.uintAt(96)
	return
}
