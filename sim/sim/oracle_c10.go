package sim

import (
	"fmt"
	"math/big"
	"sort"
	"time"

	"cosmossdk.io/math"

	sdk "github.com/cosmos/cosmos-sdk/types"
)

// OracleC10 — reporting power equals the bonded stake of active selectors, counted once.
// ref.Stake: recomputed from staking state alone at the end of every block; a report that is the first
// stake-relevant event of the next block must carry exactly that power and those per-backer terms.
type OracleC10 struct {
	counters
	prev          map[string]*stakeSnap // reporter -> expected stake terms at the end of the previous block
	prevSel       map[string]string     // selector -> reporter
	prevJail      map[string]time.Time
	contrib       map[string][]contribRec // delegator -> contributions
	unbonding     time.Duration
	prevStake     map[string]*big.Int // every actor's bonded stake at the end of the previous block
	prevValJailed map[string]bool
	prevMaxSel    uint64 // MaxSelectors at the end of the previous block (governance changes it in EndBlock, after the block's transactions)
	havePrevMax   bool
}

type stakeTerm struct {
	Selector, Validator string
	Tokens              *big.Int
	LockedUntil         time.Time
}

type stakeSnap struct{ terms []stakeTerm }

type contribRec struct {
	t        time.Time
	reporter string
	h        int64
}

func NewOracleC10() *OracleC10 {
	return &OracleC10{counters: newCounters(), prev: map[string]*stakeSnap{}, prevSel: map[string]string{}, prevJail: map[string]time.Time{}, contrib: map[string][]contribRec{}}
}

func (o *OracleC10) ID() string { return "C10" }

func (o *OracleC10) v(h int64, oracle, site, class, f string, a ...any) *Violation {
	return &Violation{Property: "C10", Oracle: oracle, Site: site, Class: class, Height: h, Msg: fmt.Sprintf(f, a...)}
}

var stakeKinds = map[string]bool{"delegate": true, "undelegate": true, "redelegate": true, "cancel_unbonding": true, "create_validator": true,
	"select_reporter": true, "switch_reporter": true, "create_reporter": true, "remove_selector": true, "withdraw_tip": true, "propose_dispute": true,
	"add_fee": true, "withdraw_fee_refund": true, "unjail_validator": true, "claim_reward": true}

// snapshot recomputes, from the staking module's state, what every reporter's selectors have delegated to bonded validators.
func (o *OracleC10) snapshot(v *View) (map[string]*stakeSnap, map[string]string) {
	return bondedStakeSnapshot(v)
}

// bondedStakeSnapshot: per reporter, what each of its selectors has delegated to bonded validators (from the
// staking module's state), and the selector -> reporter relation.
func bondedStakeSnapshot(v *View) (map[string]*stakeSnap, map[string]string) {
	out := map[string]*stakeSnap{}
	sel := map[string]string{}
	bonded := map[string]bool{}
	rate := map[string][2]*big.Int{} // validator -> tokens, shares(1e18-scaled int)
	for _, val := range v.Validators() {
		bonded[val.OperatorAddress] = val.IsBonded()
		rate[val.OperatorAddress] = [2]*big.Int{val.Tokens.BigInt(), val.DelegatorShares.BigInt()}
	}
	for _, s := range v.Selectors() {
		rep := string(s.Reporter)
		sel[string(s.Addr)] = rep
		if out[rep] == nil {
			out[rep] = &stakeSnap{}
		}
		for _, d := range v.Delegations(s.Addr) {
			if !bonded[d.ValidatorAddress] {
				continue
			}
			r := rate[d.ValidatorAddress]
			// tokens = shares * validatorTokens / validatorShares   (exact rational, floor)
			tok := new(big.Int)
			if r[1].Sign() > 0 {
				tok.Div(new(big.Int).Mul(d.Shares.BigInt(), r[0]), r[1])
			}
			va, _ := sdk.ValAddressFromBech32(d.ValidatorAddress)
			out[rep].terms = append(out[rep].terms, stakeTerm{Selector: string(s.Addr), Validator: string(va), Tokens: tok, LockedUntil: s.Rec.LockedUntilTime})
		}
	}
	return out, sel
}

func (o *OracleC10) AfterBlock(c *Chain, b *BlockCtx) []*Violation {
	var out []*Violation
	v := c.ViewOf(b.Ref)
	if o.unbonding == 0 {
		o.unbonding = time.Duration(c.Cfg.UnbondingSec) * time.Second
	}
	cur, curSel := o.snapshot(v)
	curJail := map[string]time.Time{}
	for _, r := range v.Reporters() {
		if r.Rec.Jailed {
			curJail[string(r.Addr)] = r.Rec.JailedUntil
		}
	}
	curStake := map[string]*big.Int{}
	for _, a := range c.Accounts.Actors {
		curStake[string(a.Addr)] = v.BondedStakeOf(a.Addr).BigInt()
	}
	defer func() { o.prev, o.prevSel, o.prevJail, o.prevStake = cur, curSel, curJail, curStake }()

	// was stake touched in BeginBlock (dispute execution returns / moves stake; downtime jailing takes a
	// validator out of the power index while its status stays bonded until EndBlock: grey, both readings of
	// "bonded at that moment" are accepted, so such blocks are skipped)?
	beginTouched := false
	curValJailed := map[string]bool{}
	for _, val := range v.Validators() {
		curValJailed[val.OperatorAddress] = val.Jailed
		if val.Jailed && !o.prevValJailed[val.OperatorAddress] {
			beginTouched = true
			o.count("blocks_with_validator_jailed(grey)")
		}
	}
	defer func() { o.prevValJailed = curValJailed }()
	for _, e := range b.Res.Events {
		if e.Type == "dispute_executed" {
			beginTouched = true
		}
	}
	params, _ := b.Ref.App.ReporterKeeper.Params.Get(v.ctx)
	capInForce := params.MaxSelectors // the cap the block's transactions ran under
	if o.havePrevMax {
		capInForce = o.prevMaxSel
	}
	defer func() { o.prevMaxSel, o.havePrevMax = params.MaxSelectors, true }()

	// ---- power of reports that are the first stake-relevant event of this block
	firstStakeTx := len(b.Txs) * 100
	for i, tr := range b.Txs {
		in := c.IntentOfTx(b, i)
		if in == nil || tr.Code != 0 {
			continue
		}
		for mi, m := range in.Msgs {
			if stakeKinds[m.K] && i*100+mi < firstStakeTx {
				firstStakeTx = i*100 + mi // position of the first stake-relevant message (tx index, message index)
			}
		}
	}
	reports := v.Reports()
	for i, tr := range b.Txs {
		in := c.IntentOfTx(b, i)
		if in == nil || tr.Code != 0 {
			continue
		}
		signer := c.Accounts.Addr(in.Actor)
		for mi := range in.Msgs {
			m := &in.Msgs[mi]
			switch m.K {
			case "submit_value":
				qid := QueryID(QueryDataOf(m.Q))
				// a later report of the same reporter for the same query in this block replaces this one (and its
				// recorded stake snapshot): only the last one is what the store shows
				if o.laterReport(c, b, i, mi, in.Actor, qid) {
					o.count("reports_replaced_later_in_block(skipped)")
					continue
				}
				var rep *ReportInfo
				for ri := range reports {
					r := &reports[ri]
					if r.Rep.BlockNumber == uint64(b.H) && eqBytes(r.QueryID, qid) && string(r.Reporter) == string(signer) {
						rep = r
					}
				}
				if rep == nil {
					continue
				}
				// history: who backed this report (from the chain's own per-report record)
				snap, err := b.Ref.App.ReporterKeeper.Report.Get(v.ctx, collJoinReport(qid, signer, uint64(b.H)))
				if err == nil {
					seen := map[string]bool{}
					for _, t := range snap.TokenOrigins {
						d := string(t.DelegatorAddress)
						if seen[d] || !t.Amount.IsPositive() {
							continue
						}
						seen[d] = true
						for _, pc := range o.contrib[d] {
							if pc.reporter != string(signer) && b.Time.Sub(pc.t) < o.unbonding {
								out = append(out, o.v(b.H, "double-count", "ReporterStake", "delegator-counted-for-two-reporters",
									"stake of %s backed a report of %s at height %d and a report of %s at height %d, %s apart (unbonding period %s)", sdk.AccAddress(t.DelegatorAddress), sdk.AccAddress([]byte(pc.reporter)), pc.h, signer, b.H, b.Time.Sub(pc.t), o.unbonding))
								break
							}
						}
						o.contrib[d] = append(o.contrib[d], contribRec{b.Time, string(signer), b.H})
						if len(o.contrib[d]) > 6 {
							o.contrib[d] = o.contrib[d][len(o.contrib[d])-6:]
						}
					}
				}
				if i*100+mi > firstStakeTx || beginTouched {
					o.count("reports_skipped_stake_touched_earlier_in_block")
					continue
				}
				exp := o.prev[string(signer)]
				if exp == nil {
					continue
				}
				total := new(big.Int)
				want := map[string]*big.Int{}
				for _, t := range exp.terms {
					if t.LockedUntil.After(b.Time) {
						o.count("locked_selector_terms_excluded")
						continue
					}
					total.Add(total, t.Tokens)
					want[t.Selector+"|"+t.Validator] = t.Tokens
				}
				power := new(big.Int).Div(total, big.NewInt(1_000_000))
				o.count("report_powers_checked")
				// 1 loya of slack per term for the SDK's two rounding modes
				lo := new(big.Int).Div(new(big.Int).Sub(total, big.NewInt(int64(len(want)))), big.NewInt(1_000_000))
				got := new(big.Int).SetUint64(rep.Rep.Power)
				if got.Cmp(lo) < 0 || got.Cmp(power) > 0 {
					out = append(out, o.v(b.H, "power", "MicroReport.Power", "power-ne-bonded-stake", "report by %s at height %d carries power %d; its non-locked selectors have %s loya with bonded validators (= power %s)", signer, b.H, rep.Rep.Power, total, power))
				}
				if err == nil {
					gotTerms := map[string]*big.Int{}
					for _, t := range snap.TokenOrigins {
						k := string(t.DelegatorAddress) + "|" + string(t.ValidatorAddress)
						if gotTerms[k] == nil {
							gotTerms[k] = new(big.Int)
						}
						gotTerms[k].Add(gotTerms[k], t.Amount.BigInt())
					}
					var ks []string
					for k := range want {
						ks = append(ks, k)
					}
					for k := range gotTerms {
						if want[k] == nil {
							ks = append(ks, k)
						}
					}
					sort.Strings(ks)
					for _, k := range ks {
						w, g := want[k], gotTerms[k]
						if w == nil {
							w = new(big.Int)
						}
						if g == nil {
							g = new(big.Int)
						}
						if d := new(big.Int).Abs(new(big.Int).Sub(w, g)); d.Cmp(big.NewInt(1)) > 0 {
							var dbg []string
							for _, kk := range ks {
								dbg = append(dbg, fmt.Sprintf("%x|%x want=%v got=%v", []byte(kk)[:3], []byte(kk)[len(kk)-20:len(kk)-17], want[kk], gotTerms[kk]))
							}
							out = append(out, o.v(b.H, "power", "Report.TokenOrigins", "backer-term-mismatch", "report by %s at height %d (tx %d msg %d, first stake-relevant position %d): recorded %s for a (selector, validator) pair, staking state says %s; all terms: %v", signer, b.H, i, mi, firstStakeTx, g, w, dbg))
							break
						}
					}
					o.count("origin_sets_checked")
				}
			case "select_reporter", "switch_reporter":
				// cap and minimum at join time
				target := c.Accounts.Addr(m.T)
				n := 0
				for _, rp := range curSel {
					if rp == string(target) {
						n++
					}
				}
				if uint64(n) > capInForce && curSel[string(signer)] == string(target) {
					out = append(out, o.v(b.H, "structure", "Selectors", "selector-cap-exceeded", "after %s joined reporter %s it has %d selectors, cap %d", signer, target, n, capInForce))
				}
				o.count("joins_checked")
				if i*100+mi <= firstStakeTx && !beginTouched {
					// minimum: the joiner's bonded stake at the end of the previous block
					rec, err := b.Ref.App.ReporterKeeper.Reporters.Get(v.ctx, target)
					if err == nil {
						st := o.bondedStakePrev(c, signer)
						if st != nil && st.Cmp(rec.MinTokensRequired.BigInt()) < 0 {
							out = append(out, o.v(b.H, "structure", "Selectors", "joined-below-minimum", "%s joined reporter %s with %s bonded, the reporter requires %s", signer, target, st, rec.MinTokensRequired))
						}
					}
				}
			case "unjail_reporter":
				if until, ok := o.prevJail[string(signer)]; ok && b.Time.Before(until) {
					out = append(out, o.v(b.H, "jail", "UnjailReporter", "released-before-jail-time", "reporter %s was released at %s, jailed until %s", signer, b.Time, until))
				}
			}
		}
	}
	// structural: every selector's reporter exists
	repSet := map[string]bool{}
	for _, r := range v.Reporters() {
		repSet[string(r.Addr)] = true
	}
	for s, r := range curSel {
		if !repSet[r] {
			out = append(out, o.v(b.H, "structure", "Selectors", "selector-of-missing-reporter", "selector %s points at %s, which is not a reporter", sdk.AccAddress([]byte(s)), sdk.AccAddress([]byte(r))))
		}
	}
	_ = math.ZeroInt
	return out
}

// bondedStakePrev: the bonded stake an address had at the end of the previous block (nil = unknown).
func (o *OracleC10) bondedStakePrev(c *Chain, addr sdk.AccAddress) *big.Int {
	return o.prevStake[string(addr)]
}

func (o *OracleC10) End(c *Chain) []*Violation { return nil }

func (o *OracleC10) laterReport(c *Chain, b *BlockCtx, ti, mi, actor int, qid []byte) bool {
	for i := ti; i < len(b.Txs); i++ {
		in := c.IntentOfTx(b, i)
		if in == nil || b.Txs[i].Code != 0 || in.Actor != actor {
			continue
		}
		for j := range in.Msgs {
			if (i > ti || j > mi) && in.Msgs[j].K == "submit_value" && eqBytes(QueryID(QueryDataOf(in.Msgs[j].Q)), qid) {
				return true
			}
		}
	}
	return false
}
