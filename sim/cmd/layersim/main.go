package main

import (
	"bufio"
	"encoding/json"
	"flag"
	"fmt"
	"os"
	"os/exec"
	"path/filepath"
	"runtime/pprof"
	"sort"
	"strconv"
	"strings"
	"sync"
	"time"

	"layerverif/sim"
)

// exit codes: 0 held, 1 violation (with VIOLATION line), 2 internal/build/watchdog trouble (never a VIOLATION line)

func main() {
	if len(os.Args) < 2 {
		fmt.Println("usage: layersim one|batch|worker|replay|loghash ...")
		os.Exit(2)
	}
	switch os.Args[1] {
	case "one":
		cmdOne(os.Args[2:])
	case "worker":
		cmdWorker(os.Args[2:])
	case "batch":
		cmdBatch(os.Args[2:])
	case "replay":
		cmdReplay(os.Args[2:])
	default:
		fmt.Println("unknown command")
		os.Exit(2)
	}
}

var knownSigs map[string]bool

func optsFor(prop string) sim.RunOpts {
	return sim.RunOpts{Target: prop, Known: knownSigs, Oracles: sim.OraclesFor, FullReplay: prop == "C01", QuietBlocks: 4}
}

func loadKnown(path string) {
	knownSigs = map[string]bool{}
	for _, f := range loadFindings(path) {
		if f.Status == "open" {
			knownSigs[f.Signature] = true
		}
	}
}

func runSeed(i uint64, base uint64) uint64 {
	// splitmix64 of (base, i)
	z := base + 0x9e3779b97f4a7c15*(i+1)
	z = (z ^ (z >> 30)) * 0xbf58476d1ce4e5b9
	z = (z ^ (z >> 27)) * 0x94d049bb133111eb
	return z ^ (z >> 31)
}

func cmdOne(args []string) {
	fs := flag.NewFlagSet("one", flag.ExitOnError)
	seed := fs.Uint64("seed", 1, "")
	prop := fs.String("property", "C01", "")
	tier := fs.String("tier", "quick", "")
	dump := fs.String("dump", "", "write trace here")
	fs.Parse(args)
	loadKnown(defaultFindings())
	if pf := os.Getenv("LAYERSIM_CPUPROFILE"); pf != "" {
		f, _ := os.Create(pf)
		pprof.StartCPUProfile(f)
		defer pprof.StopCPUProfile()
	}
	res := sim.RunSeed(*seed, sim.ProfileFor(*prop, *tier), optsFor(*prop))
	if res.Internal != nil {
		fmt.Println("INTERNAL:", res.Internal)
		os.Exit(2)
	}
	fmt.Printf("seed=%d blocks=%d txs=%d ok=%d fail=%d wall=%dms simulated=%dms loghash=%s\n", res.Seed, res.Stats.Blocks, res.Stats.Txs, res.Stats.TxOK, res.Stats.TxFail, res.WallMs, res.Stats.SimulatedMs, res.LogHash)
	fmt.Printf("faults=%v\naccepted=%v\nrejected=%v\nprobes=%v\n", res.Stats.FaultFired, res.Stats.MsgAccepted, res.Stats.MsgRejected, res.Stats.Probe)
	for k, m := range res.OracleData {
		fmt.Printf("oracle %s: %v\n", k, m)
	}
	for _, v := range res.Violations {
		fmt.Printf("violation: %s :: %s\n", v.Signature(), v.Msg)
	}
	if *dump != "" {
		b, _ := json.MarshalIndent(res.Trace, "", " ")
		os.WriteFile(*dump, b, 0o644)
	}
}

// ---- worker: runs a slice of the batch in its own OS process, one JSON line per run ----

type RunLine struct {
	Index      uint64                    `json:"index"`
	Seed       uint64                    `json:"seed"`
	Violations []*sim.Violation          `json:"violations,omitempty"`
	TracePath  string                    `json:"trace_path,omitempty"`
	Internal   string                    `json:"internal,omitempty"`
	Stats      *sim.Stats                `json:"stats"`
	LogHash    string                    `json:"log_hash"`
	WallMs     int64                     `json:"wall_ms"`
	Oracle     map[string]map[string]int `json:"oracle,omitempty"`
	Samples    map[string][]string       `json:"samples,omitempty"`
	States     []string                  `json:"states,omitempty"`
	Blocks     int                       `json:"blocks"`
	Sched      string                    `json:"sched"` // hash of the event-kind sequence (distinct interleavings measure)
}

func cmdWorker(args []string) {
	fs := flag.NewFlagSet("worker", flag.ExitOnError)
	prop := fs.String("property", "C01", "")
	tier := fs.String("tier", "quick", "")
	profile := fs.String("profile", "", "workload profile (default: the property's)")
	base := fs.Uint64("seed", 1, "")
	k := fs.Uint64("k", 0, "worker number")
	n := fs.Uint64("n", 1, "number of workers")
	maxRuns := fs.Uint64("max-runs", 1<<62, "total runs of the batch")
	deadline := fs.Int64("deadline", 0, "unix seconds")
	out := fs.String("out", "", "jsonl output")
	tmp := fs.String("tmp", os.TempDir(), "where failing traces go")
	findings := fs.String("findings", defaultFindings(), "")
	fs.Parse(args)
	loadKnown(*findings)
	f, err := os.Create(*out)
	if err != nil {
		fmt.Println(err)
		os.Exit(2)
	}
	defer f.Close()
	w := bufio.NewWriter(f)
	if *profile == "" {
		*profile = *prop
	}
	prof := func() *sim.Profile { return sim.ProfileFor(*profile, *tier) }
	for i := *k; i < *maxRuns; i += *n {
		if *deadline > 0 && time.Now().Unix() >= *deadline {
			break
		}
		seed := runSeed(i, *base)
		// a long (> 2000 block) run takes most of a minute: do not start one shortly before the deadline
		if *deadline > 0 && *deadline-time.Now().Unix() < 50 && sim.IsLong(seed, prof()) {
			continue
		}
		res := sim.RunSeed(seed, prof(), optsFor(*prop))
		line := RunLine{Index: i, Seed: seed, Violations: res.Violations, Stats: res.Stats, LogHash: res.LogHash, WallMs: res.WallMs,
			Oracle: res.OracleData, Samples: res.Samples, Sched: sim.SchedHash(res.Trace)}
		if res.Stats != nil {
			line.Blocks = res.Stats.Blocks
		}
		for s := range res.StateFP {
			line.States = append(line.States, s)
		}
		sort.Strings(line.States)
		if res.Internal != nil {
			line.Internal = res.Internal.Error()
		}
		if len(res.Violations) > 0 || res.Internal != nil {
			p := filepath.Join(*tmp, fmt.Sprintf("trace-%s-%d.json", *prop, seed))
			b, _ := json.Marshal(res.Trace)
			os.WriteFile(p, b, 0o644)
			line.TracePath = p
		}
		b, _ := json.Marshal(line)
		w.Write(b)
		w.WriteByte('\n')
		w.Flush()
	}
}

// ---- known findings ----

type Finding struct {
	Property  string `json:"property"`
	Signature string `json:"signature"`
	What      string `json:"what"`
	Status    string `json:"status"` // "open" | "fixed"
	Commit    string `json:"commit,omitempty"`
}

func loadFindings(path string) []Finding {
	var fs struct {
		Findings []Finding `json:"findings"`
	}
	b, err := os.ReadFile(path)
	if err != nil {
		return nil
	}
	if err := json.Unmarshal(b, &fs); err != nil {
		fmt.Println("known_findings.json unreadable:", err)
		os.Exit(2)
	}
	return fs.Findings
}

func isKnown(fs []Finding, v *sim.Violation) *Finding {
	if v.Class == "unclassified" {
		return nil
	}
	for i := range fs {
		if fs[i].Status == "open" && fs[i].Property == v.Property && fs[i].Signature == v.Signature() {
			return &fs[i]
		}
	}
	return nil
}

// ---- batch ----

func cmdBatch(args []string) {
	fs := flag.NewFlagSet("batch", flag.ExitOnError)
	prop := fs.String("property", "C01", "")
	tier := fs.String("tier", "quick", "")
	profile := fs.String("profile", "", "workload profile (default: the property's)")
	seedFlag := fs.String("seed", "", "base seed (default VERIF_SEED or 1)")
	budget := fs.Int("budget", 0, "seconds of exploration (default by tier)")
	maxRuns := fs.Uint64("max-runs", 0, "")
	workers := fs.Int("workers", 16, "")
	evidence := fs.String("evidence", "", "")
	replays := fs.String("replays", "/verif/replays", "")
	findings := fs.String("findings", defaultFindings(), "")
	fs.Parse(args)
	start := time.Now()
	base := uint64(1)
	if s := os.Getenv("VERIF_SEED"); s != "" {
		if x, err := strconv.ParseUint(s, 10, 64); err == nil {
			base = x
		}
	}
	if *seedFlag != "" {
		if x, err := strconv.ParseUint(*seedFlag, 10, 64); err == nil {
			base = x
		}
	}
	if *budget == 0 {
		if *tier == "thorough" {
			*budget = 1500
		} else {
			*budget = 100
		}
	}
	mr := *maxRuns
	if mr == 0 {
		mr = 1 << 62
	}
	tmp, err := os.MkdirTemp("", "layersim-batch")
	if err != nil {
		fmt.Println(err)
		os.Exit(2)
	}
	defer os.RemoveAll(tmp)
	self, _ := os.Executable()
	deadline := time.Now().Add(time.Duration(*budget) * time.Second).Unix()
	var wg sync.WaitGroup
	outs := make([]string, *workers)
	failed := make([]string, *workers)
	for k := 0; k < *workers; k++ {
		outs[k] = filepath.Join(tmp, fmt.Sprintf("w%d.jsonl", k))
		wg.Add(1)
		go func(k int) {
			defer wg.Done()
			cmd := exec.Command(self, "worker", "--property", *prop, "--profile", *profile, "--tier", *tier, "--seed", fmt.Sprint(base), "--k", fmt.Sprint(k), "--n", fmt.Sprint(*workers),
				"--max-runs", fmt.Sprint(mr), "--deadline", fmt.Sprint(deadline), "--out", outs[k], "--tmp", tmp, "--findings", *findings)
			cmd.Env = append(os.Environ(), "GOMAXPROCS=2")
			lf, _ := os.Create(filepath.Join(tmp, fmt.Sprintf("w%d.log", k)))
			cmd.Stdout = lf
			cmd.Stderr = lf
			done := make(chan error, 1)
			go func() { done <- cmd.Run() }()
			select {
			case err := <-done:
				if err != nil {
					failed[k] = err.Error()
				}
			case <-time.After(time.Duration(*budget)*time.Second + 10*time.Minute):
				cmd.Process.Kill()
				failed[k] = "watchdog: worker killed"
			}
			lf.Close()
		}(k)
	}
	wg.Wait()

	known := loadFindings(*findings)
	loadKnown(*findings)
	var lines []RunLine
	for _, o := range outs {
		f, err := os.Open(o)
		if err != nil {
			continue
		}
		sc := bufio.NewScanner(f)
		sc.Buffer(make([]byte, 1<<20), 1<<28)
		for sc.Scan() {
			var l RunLine
			if json.Unmarshal(sc.Bytes(), &l) == nil {
				lines = append(lines, l)
			}
		}
		f.Close()
	}
	sort.Slice(lines, func(i, j int) bool { return lines[i].Index < lines[j].Index })

	ev := newEvidence(*prop, *tier, base)
	var internal []string
	for k, f := range failed {
		if f != "" {
			lg, _ := os.ReadFile(filepath.Join(tmp, fmt.Sprintf("w%d.log", k)))
			internal = append(internal, fmt.Sprintf("worker %d: %s: %s", k, f, tail(string(lg), 2000)))
		}
	}
	type hit struct {
		line *RunLine
		v    *sim.Violation
	}
	var unlisted []hit
	knownHits := map[string]int{}
	knownWhat := map[string]string{}
	for i := range lines {
		l := &lines[i]
		ev.addRun(l)
		if l.Internal != "" {
			internal = append(internal, fmt.Sprintf("seed %d: %s", l.Seed, l.Internal))
		}
		for _, v := range l.Violations {
			if v.Property != *prop {
				ev.OtherPropertyViolations[v.Signature()]++
				continue
			}
			if f := isKnown(known, v); f != nil {
				knownHits[v.Signature()]++
				knownWhat[v.Signature()] = f.What
				continue
			}
			unlisted = append(unlisted, hit{l, v})
		}
	}
	for sig, n := range knownHits {
		fmt.Printf("KNOWN-FINDING: property=%s %s [%s] (hit in %d runs)\n", *prop, knownWhat[sig], sig, n)
	}
	ev.KnownFindingHits = knownHits
	exit := 0
	if len(unlisted) > 0 {
		// minimise and report the first few distinct signatures
		seen := map[string]bool{}
		os.MkdirAll(*replays, 0o755)
		for _, h := range unlisted {
			sig := h.v.Signature()
			if seen[sig] || len(seen) >= 3 {
				continue
			}
			seen[sig] = true
			path := filepath.Join(*replays, fmt.Sprintf("%s-%d-%s.json", *prop, h.line.Seed, sim.SigHash(sig)))
			tr := loadTrace(h.line.TracePath)
			if tr == nil {
				internal = append(internal, "trace missing for seed "+fmt.Sprint(h.line.Seed))
				continue
			}
			tr.Property = *prop
			tr.Violation = h.v
			origPlans, origIntents := len(tr.Plans), countIntents(tr)
			mb := 90 * time.Second
			if len(tr.Plans) > 1000 {
				mb = 300 * time.Second // a long run replays in 20-50 s: give the minimiser room for more than a handful of candidates
			}
			min, tries := sim.Minimize(tr, sig, optsFor(*prop), mb)
			// confirm the minimised file fails identically in a fresh process
			min.Note = fmt.Sprintf("minimised from %d heights/%d intents to %d heights/%d intents in %d replays", origPlans, origIntents, len(min.Plans), countIntents(min), tries)
			writeTrace(path, min)
			ok := confirmReplay(self, path, sig)
			if !ok {
				// fall back to the unminimised trace
				tr.Note = "unminimised (minimised candidate did not reproduce in a fresh process)"
				writeTrace(path, tr)
				ok = confirmReplay(self, path, sig)
			}
			if !ok {
				ev.Unreproducible++
				fmt.Printf("NOTE: violation %s of seed %d did not reproduce on replay; not reported (inconclusive)\n", sig, h.line.Seed)
				os.Remove(path)
				continue
			}
			fmt.Printf("VIOLATION property=%s replay=%s\n", *prop, path)
			fmt.Printf("  signature: %s\n  %s\n  %s\n", sig, h.v.Msg, min.Note)
			ev.Violations++
			exit = 1
		}
	}
	ev.finish(time.Since(start).Seconds(), internal)
	if *evidence != "" {
		os.MkdirAll(filepath.Dir(*evidence), 0o755)
		b, _ := json.MarshalIndent(ev.doc(), "", " ")
		os.WriteFile(*evidence, b, 0o644)
	}
	fmt.Printf("%s %s: runs=%d blocks=%d txs=%d simulated=%.1fd wall=%.0fs runs/hour=%.0f violations=%d known=%d internal=%d\n", *prop, *tier,
		ev.Runs, ev.Blocks, ev.Txs, float64(ev.SimulatedMs)/86400000, time.Since(start).Seconds(), ev.runsPerHour(), ev.Violations, len(knownHits), len(internal))
	if exit == 0 && (len(internal) > 0 || ev.Runs == 0) {
		for i, s := range internal {
			if i < 5 {
				fmt.Println("INTERNAL:", tail(s, 1500))
			}
		}
		// internal trouble in a minority of runs is reported but does not make the batch inconclusive
		if ev.Runs == 0 || len(internal)*5 > ev.Runs {
			os.RemoveAll(tmp) // os.Exit skips the deferred clean-up
			os.Exit(2)
		}
	}
	os.RemoveAll(tmp)
	os.Exit(exit)
}

func tail(s string, n int) string {
	if len(s) > n {
		return s[len(s)-n:]
	}
	return s
}

func countIntents(t *sim.Trace) int {
	n := 0
	for _, p := range t.Plans {
		n += len(p.Deliver)
	}
	return n
}

func loadTrace(p string) *sim.Trace {
	b, err := os.ReadFile(p)
	if err != nil {
		return nil
	}
	var t sim.Trace
	if json.Unmarshal(b, &t) != nil {
		return nil
	}
	return &t
}

func writeTrace(p string, t *sim.Trace) {
	b, _ := json.MarshalIndent(t, "", " ")
	os.WriteFile(p, b, 0o644)
}

func confirmReplay(self, path, sig string) bool {
	// map-order defects (C01) are sampled, not controlled: give them a few attempts
	tries := 1
	if strings.HasPrefix(sig, "C01/") {
		tries = 4
	}
	for i := 0; i < tries; i++ {
		out, _ := exec.Command(self, "replay", path).CombinedOutput()
		if strings.Contains(string(out), "VIOLATION property=") {
			return true
		}
	}
	return false
}

// sameDefectFamily: a map-iteration-order defect shows either as a live divergence between nodes or through the
// repeated-call probe, depending on which iteration orders the runtime happens to draw in this execution.
func sameDefectFamily(a, b string) bool {
	fam := func(s string) bool {
		return strings.HasPrefix(s, "C01/pure-function-probe/") || strings.HasPrefix(s, "C01/hash-equality/") || strings.HasPrefix(s, "C01/replay/")
	}
	return fam(a) && fam(b)
}

func cmdReplay(args []string) {
	if len(args) < 1 {
		fmt.Println("usage: layersim replay <file>")
		os.Exit(2)
	}
	if len(args) > 1 && args[1] == "--debug" {
		sim.DebugReplay = true
		if len(args) > 2 {
			sim.DebugFrom, _ = strconv.ParseInt(args[2], 10, 64)
		}
	}
	tr := loadTrace(args[0])
	if tr == nil {
		fmt.Println("cannot read trace")
		os.Exit(2)
	}
	prop := tr.Property
	if prop == "" && tr.Violation != nil {
		prop = tr.Violation.Property
	}
	loadKnown(defaultFindings())
	res := sim.Replay(tr, optsFor(prop))
	if res.Internal != nil {
		fmt.Println("INTERNAL:", res.Internal)
		os.Exit(2)
	}
	fmt.Printf("replayed %d heights, loghash=%s\n", len(tr.Plans), res.LogHash)
	want := ""
	if tr.Violation != nil {
		want = tr.Violation.Signature()
	}
	hit := false
	for _, v := range res.Violations {
		fmt.Printf("violation signature=%s height=%d :: %s\n", v.Signature(), v.Height, v.Msg)
		if v.Property == prop && (want == "" || v.Signature() == want || sameDefectFamily(want, v.Signature())) {
			hit = true
		}
	}
	if hit {
		fmt.Printf("VIOLATION property=%s replay=%s\n", prop, args[0])
		os.Exit(1)
	}
	fmt.Println("no violation of", prop, "on replay")
}

// defaultFindings: known_findings.json next to the framework this binary was built in (<root>/bin/layersim).
func defaultFindings() string {
	if exe, err := os.Executable(); err == nil {
		p := filepath.Join(filepath.Dir(filepath.Dir(exe)), "known_findings.json")
		if _, err := os.Stat(p); err == nil {
			return p
		}
	}
	return "/verif/known_findings.json"
}
