package main

import (
	"fmt"
	"sort"
)

type Evidence struct {
	Prop, Tier                    string
	Seed                          uint64
	Runs, Blocks, Txs             int
	TxOK, TxFail                  int
	SimulatedMs, MaxRunSimMs      int64
	MaxGapMs, MinGapMs            int64
	Executions, Restarts, Replays int
	Faults                        map[string]int
	Accepted, Rejected            map[string]int
	Probes                        map[string]int
	Oracle                        map[string]map[string]int
	States                        map[string]bool
	Scheds                        map[string]bool
	NonTrivial                    map[string]bool
	Samples                       []any
	RunSeeds                      []uint64
	Violations                    int
	Unreproducible                int
	KnownFindingHits              map[string]int
	OtherPropertyViolations       map[string]int
	WallS                         float64
	Internal                      []string
	WorkWallMs                    int64
}

func newEvidence(prop, tier string, seed uint64) *Evidence {
	return &Evidence{Prop: prop, Tier: tier, Seed: seed, Faults: map[string]int{}, Accepted: map[string]int{}, Rejected: map[string]int{}, Probes: map[string]int{},
		Oracle: map[string]map[string]int{}, States: map[string]bool{}, Scheds: map[string]bool{}, NonTrivial: map[string]bool{}, OtherPropertyViolations: map[string]int{}, MinGapMs: 1 << 62}
}

func (e *Evidence) addRun(l *RunLine) {
	e.Runs++
	if len(e.RunSeeds) < 8 {
		e.RunSeeds = append(e.RunSeeds, l.Seed)
	}
	e.WorkWallMs += l.WallMs
	if l.Stats == nil {
		return
	}
	s := l.Stats
	e.Blocks += s.Blocks
	e.Txs += s.Txs
	e.TxOK += s.TxOK
	e.TxFail += s.TxFail
	e.SimulatedMs += s.SimulatedMs
	if s.SimulatedMs > e.MaxRunSimMs {
		e.MaxRunSimMs = s.SimulatedMs
	}
	if s.MaxGapMs > e.MaxGapMs {
		e.MaxGapMs = s.MaxGapMs
	}
	if s.MinGapMs < e.MinGapMs {
		e.MinGapMs = s.MinGapMs
	}
	e.Executions += s.Executions
	e.Restarts += s.Restarts
	e.Replays += s.Replays
	for k, v := range s.FaultFired {
		e.Faults[k] += v
	}
	for k, v := range s.MsgAccepted {
		e.Accepted[k] += v
	}
	for k, v := range s.MsgRejected {
		e.Rejected[k] += v
	}
	for k, v := range s.Probe {
		e.Probes[k] += v
	}
	for o, m := range l.Oracle {
		if e.Oracle[o] == nil {
			e.Oracle[o] = map[string]int{}
		}
		for k, v := range m {
			e.Oracle[o][k] += v
		}
	}
	for _, st := range l.States {
		e.States[st] = true
	}
	e.Scheds[l.Sched] = true
	// non-trivial: the run made real progress (>= 10 blocks and >= 3 accepted transactions) and its
	// target oracle evaluated at least one non-vacuous case
	if s.Blocks >= 10 && s.TxOK >= 3 {
		e.NonTrivial[l.Sched] = true
	}
	if len(e.Samples) < 3 {
		if ss, ok := l.Samples[e.Prop]; ok && len(ss) > 0 {
			e.Samples = append(e.Samples, map[string]any{"run_seed": l.Seed, "blocks": s.Blocks, "faults": s.FaultFired, "accepted": s.MsgAccepted, "oracle_sample": ss[0]})
		} else if len(e.Samples) < 2 {
			e.Samples = append(e.Samples, map[string]any{"run_seed": l.Seed, "blocks": s.Blocks, "faults": s.FaultFired, "accepted": s.MsgAccepted, "rejected": s.MsgRejected})
		}
	}
}

func (e *Evidence) runsPerHour() float64 {
	if e.WallS <= 0 {
		return 0
	}
	return float64(e.Runs) / e.WallS * 3600
}

func (e *Evidence) finish(wall float64, internal []string) {
	e.WallS = wall
	e.Internal = internal
}

func sortedKeys(m map[string]int) []string {
	var ks []string
	for k := range m {
		ks = append(ks, k)
	}
	sort.Strings(ks)
	return ks
}

func (e *Evidence) doc() map[string]any {
	unreached := []string{}
	for _, k := range []string{"F1_tx_lost", "F1_vote_lost", "F2_tx_dup", "F3_reorder", "F3_tx_delayed", "F4_partition", "F4_heal", "F6_step_back_1ms", "F6_big_gap", "F7_failed_round", "F7_slow_validator", "F9_random_gas_limit", "F11_keyring_fail"} {
		if e.Faults[k] == 0 {
			unreached = append(unreached, k)
		}
	}
	crash := 0
	for k, v := range e.Faults {
		if len(k) > 8 && k[:8] == "F5_crash" {
			crash += v
		}
	}
	if crash == 0 {
		unreached = append(unreached, "F5_crash")
	}
	min := e.MinGapMs
	if min == 1<<62 {
		min = 0
	}
	cov := map[string]any{
		"evaluations":         e.Runs,
		"distinct_nontrivial": len(e.NonTrivial),
		"rule": "one evaluation = one seeded simulated run (genesis configuration, workload, schedule and faults all drawn from the run seed; oracles of every property evaluated after every block). " +
			"A run is non-trivial when it committed >= 10 blocks and >= 3 user transactions succeeded; distinct = distinct hash of the run's schedule (per-height proposer, voter set, absent votes, crash points, failed rounds, tx kinds and delivery targets, block-time gap class).",
		"samples":                       e.Samples,
		"runs_per_hour":                 e.runsPerHour(),
		"run_seeds_first":               e.RunSeeds,
		"blocks_decided":                e.Blocks,
		"block_executions":              e.Executions,
		"user_txs":                      e.Txs,
		"user_txs_ok":                   e.TxOK,
		"user_txs_failed":               e.TxFail,
		"simulated_time_days_sum":       float64(e.SimulatedMs) / 86400000,
		"simulated_time_days_max_run":   float64(e.MaxRunSimMs) / 86400000,
		"block_gap_ms_min":              min,
		"block_gap_ms_max":              e.MaxGapMs,
		"faults_fired":                  e.Faults,
		"fault_kinds_unreached":         unreached,
		"node_restarts":                 e.Restarts,
		"blocks_replayed_after_restart": e.Replays,
		"msgs_accepted":                 e.Accepted,
		"msgs_rejected":                 e.Rejected,
		"probes":                        e.Probes,
		"oracle_counters":               e.Oracle,
		"distinct_states":               len(e.States),
		"distinct_states_measure":       "abstract fingerprint per block: (#open rounds, #tipped, #with reports, #reporters, #selectors, #bonded validators, #nodes down, cycle index)",
		"distinct_interleavings":        len(e.Scheds),
		"known_finding_hits":            e.KnownFindingHits,
		"other_property_violations":     e.OtherPropertyViolations,
		"unreproducible_violations":     e.Unreproducible,
		"internal_errors":               len(e.Internal),
		"components": map[string]any{
			"real": []string{"app.App (all keepers, Begin/EndBlockers, PreBlocker, ante chain, Prepare/ProcessProposal, ExtendVote/VerifyVoteExtension, msg servers, baseapp runTx)", "cosmos-sdk store/IAVL over in-memory DB", "bank/staking/slashing/distribution/gov/auth", "cosmos keyring (in-memory via hook H1; shipped file keyring on a fraction of runs)", "signed SDK transactions"},
			"stub": []string{"CometBFT (simcomet: round-level driver generating legal ABCI call sequences)", "network (seeded delivery/loss/dup/delay/partition decisions)", "validator clocks / BFT time", "EVM contracts (evmmodel)", "clients/wallets"},
		},
	}
	if len(e.Internal) > 0 {
		n := len(e.Internal)
		if n > 3 {
			n = 3
		}
		cov["internal_error_samples"] = e.Internal[:n]
	}
	return map[string]any{
		"property_id": e.Prop, "tier": e.Tier, "seed": e.Seed, "level": "exploration", "wall_s": e.WallS, "violations": e.Violations,
		"coverage": cov,
		"assumptions": []string{
			"CometBFT is replaced by a stub that only generates ABCI call sequences a correct engine could produce; engine bugs are out of scope",
			"SDK slashing fractions and gov burns are configured to zero in the simulated genesis so that only Layer's own supply events remain",
			"storage faults stop at commit granularity (IAVL internals trusted)",
			"a clean batch is evidence over the sampled histories, not a proof",
			fmt.Sprintf("oracles read committed state through the application's exported collections on a node at the chain tip"),
		},
	}
}
