#!/bin/bash
# Regression over the repaired defects: every findings/*.replay.json (the minimised trace that exposed a defect which
# was then repaired by a "fix:" commit) is re-executed against /repo's working tree and must no longer violate.
# exit 0 = all clean; 1 = some replay violates again (the defect is back); 2 = build trouble.
set -u
ROOT="$(cd "$(dirname "$0")" && pwd)"; cd "$ROOT" || exit 2
export GOFLAGS=-mod=mod GOPROXY=off GOSUMDB=off GOTOOLCHAIN=local CGO_ENABLED=1
mkdir -p bin
( cd sim && go build -tags verif -o "$ROOT/bin/layersim" ./cmd/layersim ) || { echo "BUILD FAILED"; exit 2; }
rc=0
for f in findings/*.replay.json; do
  out=$("$ROOT/bin/layersim" replay "$f" 2>&1 | grep -v '^team: ' | tail -1)
  case "$out" in
    "no violation of"*) echo "clean   $f" ;;
    VIOLATION*) echo "RETURNED $f :: $out"; rc=1 ;;
    *) echo "trouble $f :: $out"; [ $rc = 0 ] && rc=2 ;;
  esac
done
exit $rc
