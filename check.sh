#!/bin/bash
# usage: check.sh <property-id> quick|thorough        run the check (rebuilds from /repo's working tree; budgets: quick 75 s, thorough 600 s, VERIF_BUDGET overrides)
#        check.sh <property-id> --replay <file>       re-execute a replay file
# exit 0 = held on everything explored; 1 = VIOLATION line printed; 2 = build/internal trouble (never a VIOLATION line)
set -u
ID="${1:?property id}"; MODE="${2:-quick}"
export GOFLAGS=-mod=mod GOPROXY=off GOSUMDB=off GOTOOLCHAIN=local CGO_ENABLED=1
ROOT="$(cd "$(dirname "$0")" && pwd)"   # location independent: a snapshot of /verif (vp run) works on its own copy
cd "$ROOT" || exit 2
mkdir -p bin evidence replays
SEED="${VERIF_SEED:-1}"
EVDIR="${VERIF_EVIDENCE_DIR:-$ROOT/evidence}"; RPDIR="${VERIF_REPLAYS_DIR:-$ROOT/replays}"; mkdir -p "$EVDIR" "$RPDIR"

# the repository under test: /repo's working tree, unless a snapshot of it is named (vp run --with-repo sets VP_RUN_REPO)
REPO="${VERIF_REPO:-${VP_RUN_REPO:-/repo}}"
MODFLAG=""
if [ "$REPO" != "/repo" ]; then
  sed "s#=> /repo\$#=> $REPO#" "$ROOT/sim/go.mod" > "$ROOT/bin/alt.mod" && cp "$ROOT/sim/go.sum" "$ROOT/bin/alt.sum" && MODFLAG="-modfile=$ROOT/bin/alt.mod"
fi

if [ "$ID" = "C20" ]; then
  ( cd "$ROOT/pricesim" && ./build.sh "$REPO" ) >/tmp/verif-build-C20.log 2>&1 || { echo "BUILD FAILED (pricesim)"; tail -30 /tmp/verif-build-C20.log; exit 2; }
  if [ "$MODE" = "--replay" ]; then exec "$ROOT/pricesim/bin/pricesim" replay "${3:?file}"; fi
  PB=""
  if [ -n "${VERIF_BUDGET:-}" ]; then PB="--budget $VERIF_BUDGET"; elif [ "$MODE" = "thorough" ]; then PB="--budget 600"; fi
  exec "$ROOT/pricesim/bin/pricesim" run --tier "$MODE" --seed "$SEED" --evidence "$EVDIR/C20.json" --replays "$RPDIR" $PB
fi

( cd "$ROOT/sim" && go build $MODFLAG -tags verif -o "$ROOT/bin/layersim" ./cmd/layersim ) >/tmp/verif-build-$ID.log 2>&1 || { echo "BUILD FAILED (layersim against /repo working tree)"; tail -30 /tmp/verif-build-$ID.log; exit 2; }

if [ "$MODE" = "--replay" ]; then
  exec "$ROOT/bin/layersim" replay "${3:?file}"
fi
case "$MODE" in
  quick)    BUDGET="${VERIF_BUDGET:-75}" ;;
  thorough) BUDGET="${VERIF_BUDGET:-600}" ;;
  *) echo "mode must be quick|thorough|--replay"; exit 2 ;;
esac
"$ROOT/bin/layersim" batch --property "$ID" --tier "$MODE" --seed "$SEED" --budget "$BUDGET" --workers "${VERIF_WORKERS:-16}" \
     --evidence "$EVDIR/$ID.json" --replays "$RPDIR" --findings "$ROOT/known_findings.json" 2>&1 | grep -v '^team: '
exit "${PIPESTATUS[0]}"
