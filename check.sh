#!/bin/bash
# usage: check.sh <property-id> quick|thorough        run the check (rebuilds from /repo's working tree)
#        check.sh <property-id> --replay <file>       re-execute a replay file
# exit 0 = held on everything explored; 1 = VIOLATION line printed; 2 = build/internal trouble (never a VIOLATION line)
set -u
ID="${1:?property id}"; MODE="${2:-quick}"
export GOFLAGS=-mod=mod GOPROXY=off GOSUMDB=off GOTOOLCHAIN=local CGO_ENABLED=1
cd /verif || exit 2
mkdir -p bin evidence replays
SEED="${VERIF_SEED:-1}"

if [ "$ID" = "C20" ]; then
  ( cd /verif/pricesim && ./build.sh /repo ) >/tmp/verif-build-C20.log 2>&1 || { echo "BUILD FAILED (pricesim)"; tail -30 /tmp/verif-build-C20.log; exit 2; }
  if [ "$MODE" = "--replay" ]; then exec /verif/pricesim/bin/pricesim replay "${3:?file}"; fi
  exec /verif/pricesim/bin/pricesim run --tier "$MODE" --seed "$SEED" --evidence /verif/evidence/C20.json --replays /verif/replays
fi

( cd /verif/sim && go build -tags verif -o /verif/bin/layersim ./cmd/layersim ) >/tmp/verif-build-$ID.log 2>&1 || { echo "BUILD FAILED (layersim against /repo working tree)"; tail -30 /tmp/verif-build-$ID.log; exit 2; }

if [ "$MODE" = "--replay" ]; then
  exec /verif/bin/layersim replay "${3:?file}"
fi
case "$MODE" in
  quick)    BUDGET="${VERIF_BUDGET:-75}" ;;
  thorough) BUDGET="${VERIF_BUDGET:-1500}" ;;
  *) echo "mode must be quick|thorough|--replay"; exit 2 ;;
esac
/verif/bin/layersim batch --property "$ID" --tier "$MODE" --seed "$SEED" --budget "$BUDGET" --workers "${VERIF_WORKERS:-16}" \
     --evidence "/verif/evidence/$ID.json" --replays /verif/replays --findings /verif/known_findings.json 2>&1 | grep -v '^team: '
exit "${PIPESTATUS[0]}"
