#!/bin/bash
# Determinism self-test: the same run seed must give the same event-log hash (scheduler decisions, app hashes,
# result digests, violation signatures) in every process, at GOMAXPROCS 1, 4 and 16.
# usage: selftest_determinism.sh [nseeds=12] [profiles="C02 C12 C16 C19"]
# exit 0 = all identical; exit 2 = divergence (a simulator bug unless attributable to a C01 site) - never a VIOLATION line.
set -u
N="${1:-12}"; PROFILES="${2:-C02 C12 C16 C19}"
export GOFLAGS=-mod=mod GOPROXY=off GOSUMDB=off GOTOOLCHAIN=local
ROOT="$(cd "$(dirname "$0")" && pwd)"
cd "$ROOT/sim" && go build -tags verif -o "$ROOT/bin/layersim" ./cmd/layersim || exit 2
cd "$ROOT"; tmp=$(mktemp -d); fail=0; procs=0
for prof in $PROFILES; do
  for s in $(seq 1 "$N"); do
    seed=$((s * 7919 + 13))
    for gmp in 1 4 16; do
      ( GOMAXPROCS=$gmp ./bin/layersim one --property "$prof" --seed "$seed" 2>/dev/null | grep -o 'loghash=[0-9a-f]*' > "$tmp/$prof-$seed-$gmp.a" ) &
      ( GOMAXPROCS=$gmp ./bin/layersim one --property "$prof" --seed "$seed" 2>/dev/null | grep -o 'loghash=[0-9a-f]*' > "$tmp/$prof-$seed-$gmp.b" ) &
      procs=$((procs + 2))
    done
    wait
    ref=$(cat "$tmp/$prof-$seed-1.a")
    for f in "$tmp/$prof-$seed"-*; do
      if [ "$(cat "$f")" != "$ref" ] || [ -z "$ref" ]; then echo "DIVERGENCE profile=$prof seed=$seed file=$(basename "$f") got=$(cat "$f") want=$ref"; fail=1; fi
    done
  done
done
rm -rf "$tmp"
echo "determinism self-test: $procs processes, profiles [$PROFILES], $N seeds each, GOMAXPROCS 1/4/16: $([ $fail = 0 ] && echo ALL IDENTICAL || echo DIVERGED)"
[ $fail = 0 ] && exit 0 || exit 2
