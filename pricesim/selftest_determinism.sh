#!/usr/bin/env bash
# Determinism self-test of pricesim: the same seed must give the same combined event-log hash
# (every scheduling decision, yield, cache state digest, result) in every process, at GOMAXPROCS
# 1, 4 and 16, also when the scheduler is made to look at the goroutine states all the time
# (--blocked-after-ms 0.05: on code whose every Lock has a yield point in front of it no look may
# ever classify a client as asleep).
#
#   ./selftest_determinism.sh [repo_path=/repo] [processes_per_setting=8] [runs_per_process=1500] [seed=1]
#
# exit 0 = all identical, exit 2 = divergence or a process that did not exit 0. Never prints a VIOLATION line.
set -u
here="$(cd "$(dirname "${BASH_SOURCE[0]}")" && pwd)"
repo="${1:-/repo}"; N="${2:-8}"; RUNS="${3:-1500}"; SEED="${4:-1}"
bin="$(mktemp -d /tmp/ps_selftest.XXXXXX)"; trap 'rm -rf "$bin"' EXIT
PRICESIM_BIN="$bin" "$here/build.sh" "$repo" >/dev/null 2>"$bin/build.err" || { cat "$bin/build.err"; echo "selftest: build failed"; exit 2; }
fail=0; procs=0; ref=""
for gmp in 1 4 16; do
  for ba in 20 0.05; do
    for i in $(seq 1 "$N"); do
      ( GOMAXPROCS=$gmp "$bin/pricesim" run --tier quick --seed "$SEED" --runs "$RUNS" --no-race --loghash --blocked-after-ms "$ba" --replays "$bin" >"$bin/o-$gmp-$ba-$i" 2>&1; echo "exit=$?" >>"$bin/o-$gmp-$ba-$i" ) &
    done
    wait
    for i in $(seq 1 "$N"); do
      procs=$((procs + 1)); f="$bin/o-$gmp-$ba-$i"
      h="$(grep -o 'LOGHASH [0-9a-f]* runs=[0-9]*' "$f")"; rc="$(grep -o 'exit=[0-9]*' "$f" | tail -1)"
      [ -z "$ref" ] && ref="$h"
      if [ "$rc" != "exit=0" ] || [ -z "$h" ] || [ "$h" != "$ref" ]; then
        echo "DIVERGENCE GOMAXPROCS=$gmp blocked-after-ms=$ba process=$i: $rc got='$h' want='$ref'"; grep -v LOGHASH "$f" | grep -v '^VIOLATION' | head -5 | cut -c1-300; fail=1
      fi
    done
  done
done
echo "pricesim determinism self-test: $procs processes x $RUNS histories, seed $SEED, GOMAXPROCS 1/4/16, blocked-after-ms 20/0.05: $([ $fail = 0 ] && echo "ALL IDENTICAL ($ref)" || echo DIVERGED)"
[ $fail = 0 ] && exit 0 || exit 2
