module pricesim

go 1.23

require (
	cosmossdk.io/log v1.3.1
	github.com/anishathalye/porcupine v1.3.0
	github.com/petermattis/goid v0.0.0-20240813172612-4fcff4a6cae7
	github.com/tellor-io/layer v0.0.0
)

require (
	cosmossdk.io/api v0.7.5 // indirect
	cosmossdk.io/collections v0.4.0 // indirect
	cosmossdk.io/core v0.12.0 // indirect
	cosmossdk.io/depinject v1.0.0 // indirect
	cosmossdk.io/errors v1.0.1 // indirect
	cosmossdk.io/math v1.3.0 // indirect
	cosmossdk.io/store v1.1.0 // indirect
	cosmossdk.io/x/tx v0.13.4 // indirect
	github.com/DataDog/datadog-go v3.2.0+incompatible // indirect
	github.com/beorn7/perks v1.0.1 // indirect
	github.com/btcsuite/btcd/btcec/v2 v2.3.2 // indirect
	github.com/cespare/xxhash/v2 v2.3.0 // indirect
	github.com/cometbft/cometbft v0.38.10 // indirect
	github.com/cometbft/cometbft-db v0.9.1 // indirect
	github.com/cosmos/btcutil v1.0.5 // indirect
	github.com/cosmos/cosmos-db v1.0.2 // indirect
	github.com/cosmos/cosmos-proto v1.0.0-beta.5 // indirect
	github.com/cosmos/cosmos-sdk v0.50.9 // indirect
	github.com/cosmos/gogoproto v1.5.0 // indirect
	github.com/cosmos/ics23/go v0.10.0 // indirect
	github.com/davecgh/go-spew v1.1.2-0.20180830191138-d8f796af33cc // indirect
	github.com/decred/dcrd/dcrec/secp256k1/v4 v4.2.0 // indirect
	github.com/go-kit/kit v0.12.0 // indirect
	github.com/go-kit/log v0.2.1 // indirect
	github.com/go-logfmt/logfmt v0.6.0 // indirect
	github.com/go-playground/locales v0.14.1 // indirect
	github.com/go-playground/universal-translator v0.18.1 // indirect
	github.com/go-playground/validator/v10 v10.12.0 // indirect
	github.com/golang/protobuf v1.5.4 // indirect
	github.com/golang/snappy v0.0.5-0.20220116011046-fa5810519dcb // indirect
	github.com/google/btree v1.1.2 // indirect
	github.com/google/go-cmp v0.6.0 // indirect
	github.com/grpc-ecosystem/grpc-gateway v1.16.0 // indirect
	github.com/hashicorp/go-immutable-radix v1.3.1 // indirect
	github.com/hashicorp/go-metrics v0.5.3 // indirect
	github.com/hashicorp/golang-lru v1.0.2 // indirect
	github.com/iancoleman/strcase v0.3.0 // indirect
	github.com/leodido/go-urn v1.2.2 // indirect
	github.com/mattn/go-colorable v0.1.13 // indirect
	github.com/mattn/go-isatty v0.0.20 // indirect
	github.com/oasisprotocol/curve25519-voi v0.0.0-20230904125328-1f23a7beb09a // indirect
	github.com/pkg/errors v0.9.1 // indirect
	github.com/pmezard/go-difflib v1.0.1-0.20181226105442-5d4384ee4fb2 // indirect
	github.com/prometheus/client_golang v1.19.0 // indirect
	github.com/prometheus/client_model v0.6.1 // indirect
	github.com/prometheus/common v0.52.2 // indirect
	github.com/prometheus/procfs v0.13.0 // indirect
	github.com/rs/zerolog v1.32.0 // indirect
	github.com/spf13/cast v1.6.0 // indirect
	github.com/spf13/cobra v1.8.0 // indirect
	github.com/spf13/pflag v1.0.5 // indirect
	github.com/stretchr/testify v1.9.0 // indirect
	github.com/syndtr/goleveldb v1.0.1-0.20220721030215-126854af5e6d // indirect
	github.com/tendermint/go-amino v0.16.0 // indirect
	golang.org/x/crypto v0.25.0 // indirect
	golang.org/x/exp v0.0.0-20240506185415-9bf2ced13842 // indirect
	golang.org/x/net v0.27.0 // indirect
	golang.org/x/sys v0.22.0 // indirect
	golang.org/x/text v0.16.0 // indirect
	google.golang.org/genproto v0.0.0-20240227224415-6ceb2ff114de // indirect
	google.golang.org/genproto/googleapis/api v0.0.0-20240515191416-fc5f0ca64291 // indirect
	google.golang.org/genproto/googleapis/rpc v0.0.0-20240709173604-40e1e62336c5 // indirect
	google.golang.org/grpc v1.64.1 // indirect
	google.golang.org/protobuf v1.34.2 // indirect
	gopkg.in/yaml.v3 v3.0.1 // indirect
	sigs.k8s.io/yaml v1.4.0 // indirect
)

replace github.com/tellor-io/layer => /repo

replace (
	cosmossdk.io/core => cosmossdk.io/core v0.11.0
	github.com/99designs/keyring => github.com/cosmos/keyring v1.2.0
	github.com/cosmos/iavl => github.com/cosmos/iavl v1.2.0
	github.com/gogo/protobuf => github.com/regen-network/protobuf v1.3.3-alpha.regen.1
	github.com/syndtr/goleveldb => github.com/syndtr/goleveldb v1.0.1-0.20210819022825-2ae1ddf74ef7
)
