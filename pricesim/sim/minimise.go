package sim

import "time"

// ExecuteUntil executes (spec, schedule) PRNG-free up to `attempts` times until a violation of
// kind `kind` shows up (any violation if kind is ""). More than one attempt is only ever needed
// when the code under test lets a reader interleave with a writer: Go randomises the iteration
// order of the exchange map inside GetValidPrices, which the scheduler cannot control, so the
// same schedule can then produce different read results. On code whose reads are atomic every
// attempt is identical. It returns the matching (or last) result and the number of attempts used.
func ExecuteUntil(spec RunSpec, schedule []int, kind string, attempts int, opts ExecOpts) (*ExecResult, int, bool) {
	var res *ExecResult
	for a := 1; a <= attempts; a++ {
		res = Execute(spec, &listChooser{list: schedule}, opts)
		if res.Internal != nil {
			return res, a, false
		}
		if res.Violation != nil && (kind == "" || res.Violation.Kind == kind) {
			return res, a, true
		}
	}
	return res, attempts, false
}

// Minimise shrinks (spec, schedule) while a violation of the same kind persists.
// Every candidate is executed for real under the list chooser (PRNG-free).
// It returns the smallest reproducing spec, its effective schedule and the number of attempts.
func Minimise(spec RunSpec, schedule []int, kind string, budget time.Duration) (RunSpec, []int, int) {
	deadline := time.Now().Add(budget)
	attempts := 0
	// Is the violation stable under re-execution? (see ExecuteUntil)
	perTry := 1
	var h0 [32]byte
	for i := 0; i < 6; i++ {
		res := Execute(spec, &listChooser{list: schedule}, ExecOpts{})
		if i == 0 {
			h0 = res.LogHash
		}
		if res.Violation == nil || res.Violation.Kind != kind || res.LogHash != h0 {
			perTry = 8
			break
		}
	}
	var lastOps []int // op index per step of the most recent successful execution
	try := func(s RunSpec, sch []int) ([]int, bool) {
		if time.Now().After(deadline) || attempts >= 4000 {
			return nil, false
		}
		attempts++
		res, _, ok := ExecuteUntil(s, sch, kind, perTry, ExecOpts{})
		if !ok {
			return nil, false
		}
		lastOps = res.SchedOp
		return res.Schedule, true
	}
	// without removes from the schedule the steps of client c (all its ops if op < 0, else op `op`)
	// and renumbers the later ops of that client; returns the schedule only (op tags are refreshed
	// by the next successful execution).
	without := func(sch, ops []int, c, op int) []int {
		if len(ops) != len(sch) {
			return sch
		}
		out := make([]int, 0, len(sch))
		for i, id := range sch {
			if id == c && (op < 0 || ops[i] == op) {
				continue
			}
			out = append(out, id)
		}
		return out
	}

	cur, curSch := spec.Clone(), append([]int(nil), schedule...)
	var curOps []int
	if sch, ok := try(cur, curSch); ok {
		curSch, curOps = sch, lastOps
	} else {
		return spec, schedule, attempts
	}

	for changed := true; changed; {
		changed = false

		// 1. drop whole clients (keep ids stable: empty the op list)
		for c := range cur.Clients {
			if len(cur.Clients[c]) == 0 {
				continue
			}
			cand := cur.Clone()
			cand.Clients[c] = nil
			if sch, ok := try(cand, without(curSch, curOps, c, -1)); ok {
				cur, curSch, curOps, changed = cand, sch, lastOps, true
			}
		}

		// 2. drop single operations, last first
		for c := range cur.Clients {
			for i := len(cur.Clients[c]) - 1; i >= 0; i-- {
				if i >= len(cur.Clients[c]) {
					continue
				}
				cand := cur.Clone()
				cand.Clients[c] = append(cand.Clients[c][:i:i], cand.Clients[c][i+1:]...)
				if sch, ok := try(cand, without(curSch, curOps, c, i)); ok {
					cur, curSch, curOps, changed = cand, sch, lastOps, true
				} else if sch, ok := try(cand, curSch); ok {
					cur, curSch, curOps, changed = cand, sch, lastOps, true
				}
			}
		}

		// 3. shrink batches and parameter lists
		for c := range cur.Clients {
			for i := range cur.Clients[c] {
				op := cur.Clients[c][i]
				for m := len(op.Batch) - 1; m >= 0; m-- {
					if m >= len(cur.Clients[c][i].Batch) {
						continue
					}
					for p := len(cur.Clients[c][i].Batch[m].Prices) - 1; p >= 0; p-- {
						if len(cur.Clients[c][i].Batch[m].Prices) <= 1 {
							break
						}
						cand := cur.Clone()
						ps := cand.Clients[c][i].Batch[m].Prices
						cand.Clients[c][i].Batch[m].Prices = append(ps[:p:p], ps[p+1:]...)
						if sch, ok := try(cand, curSch); ok {
							cur, curSch, curOps, changed = cand, sch, lastOps, true
						}
					}
					if len(cur.Clients[c][i].Batch) > 1 {
						cand := cur.Clone()
						b := cand.Clients[c][i].Batch
						cand.Clients[c][i].Batch = append(b[:m:m], b[m+1:]...)
						if sch, ok := try(cand, curSch); ok {
							cur, curSch, curOps, changed = cand, sch, lastOps, true
						}
					}
				}
				for p := len(cur.Clients[c][i].Params) - 1; p >= 0; p-- {
					if len(cur.Clients[c][i].Params) <= 1 {
						break
					}
					cand := cur.Clone()
					ps := cand.Clients[c][i].Params
					cand.Clients[c][i].Params = append(ps[:p:p], ps[p+1:]...)
					if sch, ok := try(cand, curSch); ok {
						cur, curSch, curOps, changed = cand, sch, lastOps, true
					}
				}
			}
		}

		// 4. simplify the schedule: first the fully sequential default, then fewer context switches
		if len(curSch) > 0 {
			if sch, ok := try(cur, nil); ok && len(sch) <= len(curSch) && !sameInts(sch, curSch) {
				curSch, curOps, changed = sch, lastOps, true
			}
		}
		for i := 1; i < len(curSch); i++ {
			if curSch[i] == curSch[i-1] {
				continue
			}
			// try to let the previous client continue instead of switching here
			cand := append([]int(nil), curSch[:i]...)
			cand = append(cand, curSch[i-1])
			cand = append(cand, curSch[i:]...)
			if sch, ok := try(cur, cand); ok && switches(sch) < switches(curSch) {
				curSch, curOps, changed = sch, lastOps, true
			}
		}
	}

	// compact: remove clients that ended up empty at the tail
	for len(cur.Clients) > 0 && len(cur.Clients[len(cur.Clients)-1]) == 0 {
		cand := cur.Clone()
		cand.Clients = cand.Clients[:len(cand.Clients)-1]
		sch, ok := try(cand, curSch)
		if !ok {
			break
		}
		cur, curSch, curOps = cand, sch, lastOps
	}
	_ = curOps
	return cur, curSch, attempts
}

func sameInts(a, b []int) bool {
	if len(a) != len(b) {
		return false
	}
	for i := range a {
		if a[i] != b[i] {
			return false
		}
	}
	return true
}

func switches(s []int) int {
	n := 0
	for i := 1; i < len(s); i++ {
		if s[i] != s[i-1] {
			n++
		}
	}
	return n
}
