package sim

import "time"

// ExecuteUntil executes (spec, schedule) PRNG-free up to `attempts` times until a violation of
// kind `kind` shows up (any violation if kind is ""). More than one attempt is only ever needed
// when the code under test lets a reader interleave with a writer: Go randomises the iteration
// order of the exchange map inside GetValidPrices, which the scheduler cannot control, so the
// same schedule can then produce different read results. On code whose reads are atomic every
// attempt is identical. It returns the matching (or last) result and the number of attempts used.
//
// blocked (parallel to schedule, may be nil) is the recorded outcome of each release: true = the
// released client was found asleep on a lock taken without a yield point (see listChooser).
func ExecuteUntil(spec RunSpec, schedule []int, blocked []bool, kind string, attempts int, opts ExecOpts) (*ExecResult, int, bool) {
	var res *ExecResult
	for a := 1; a <= attempts; a++ {
		res = Execute(spec, &listChooser{list: schedule, blk: blocked}, opts)
		if res.Internal != nil {
			return res, a, false
		}
		if res.Violation != nil && (kind == "" || res.Violation.Kind == kind) {
			return res, a, true
		}
	}
	return res, attempts, false
}

// Minimise shrinks (spec, schedule) while a violation of the same kind persists.
// Every candidate is executed for real under the list chooser (PRNG-free).
// It returns the smallest reproducing spec, its effective schedule (with the per-step outcomes) and the number of attempts.
func Minimise(spec RunSpec, schedule []int, blocked []bool, kind string, budget time.Duration) (RunSpec, []int, []bool, int) {
	deadline := time.Now().Add(budget)
	attempts := 0
	// Is the violation stable under re-execution? (see ExecuteUntil)
	perTry := 1
	var h0 [32]byte
	for i := 0; i < 6; i++ {
		res := Execute(spec, &listChooser{list: schedule, blk: blocked}, ExecOpts{})
		if res.Internal != nil {
			return spec, schedule, blocked, attempts
		}
		if i == 0 {
			h0 = res.LogHash
		}
		if res.Violation == nil || res.Violation.Kind != kind || res.LogHash != h0 {
			perTry = 8
			break
		}
	}
	var lastOps []int // op index per step of the most recent successful execution
	internal := false // a candidate ended in simulator trouble: stop shrinking, keep what reproduces
	try := func(s RunSpec, sch schedT) (schedT, bool) {
		if internal || time.Now().After(deadline) || attempts >= 4000 {
			return schedT{}, false
		}
		attempts++
		res, _, ok := ExecuteUntil(s, sch.ids, sch.blk, kind, perTry, ExecOpts{})
		if !ok {
			if res != nil && res.Internal != nil {
				internal = true
			}
			return schedT{}, false
		}
		lastOps = res.SchedOp
		return schedT{ids: res.Schedule, blk: res.BlockedAt}, true
	}
	// without removes from the schedule the steps of client c (all its ops if op < 0, else op `op`)
	// and renumbers the later ops of that client; returns the schedule only (op tags are refreshed
	// by the next successful execution).
	without := func(sch schedT, ops []int, c, op int) schedT {
		if len(ops) != len(sch.ids) {
			return sch
		}
		out := schedT{ids: make([]int, 0, len(sch.ids)), blk: make([]bool, 0, len(sch.ids))}
		for i, id := range sch.ids {
			if id == c && (op < 0 || ops[i] == op) {
				continue
			}
			out.ids = append(out.ids, id)
			out.blk = append(out.blk, sch.at(i))
		}
		return out
	}

	cur, curSch := spec.Clone(), schedT{ids: append([]int(nil), schedule...), blk: append([]bool(nil), blocked...)}
	var curOps []int
	if sch, ok := try(cur, curSch); ok {
		curSch, curOps = sch, lastOps
	} else {
		return spec, schedule, blocked, attempts
	}

	for changed := true; changed; {
		changed = false

		// 1. drop whole clients (keep ids stable: empty the op list)
		for c := range cur.Clients {
			if len(cur.Clients[c]) == 0 {
				continue
			}
			cand := cur.Clone()
			cand.Clients[c] = nil
			if sch, ok := try(cand, without(curSch, curOps, c, -1)); ok {
				cur, curSch, curOps, changed = cand, sch, lastOps, true
			}
		}

		// 2. drop single operations, last first
		for c := range cur.Clients {
			for i := len(cur.Clients[c]) - 1; i >= 0; i-- {
				if i >= len(cur.Clients[c]) {
					continue
				}
				cand := cur.Clone()
				cand.Clients[c] = append(cand.Clients[c][:i:i], cand.Clients[c][i+1:]...)
				if sch, ok := try(cand, without(curSch, curOps, c, i)); ok {
					cur, curSch, curOps, changed = cand, sch, lastOps, true
				} else if sch, ok := try(cand, curSch); ok {
					cur, curSch, curOps, changed = cand, sch, lastOps, true
				}
			}
		}

		// 3. shrink batches and parameter lists
		for c := range cur.Clients {
			for i := range cur.Clients[c] {
				op := cur.Clients[c][i]
				for m := len(op.Batch) - 1; m >= 0; m-- {
					if m >= len(cur.Clients[c][i].Batch) {
						continue
					}
					for p := len(cur.Clients[c][i].Batch[m].Prices) - 1; p >= 0; p-- {
						if len(cur.Clients[c][i].Batch[m].Prices) <= 1 {
							break
						}
						cand := cur.Clone()
						ps := cand.Clients[c][i].Batch[m].Prices
						cand.Clients[c][i].Batch[m].Prices = append(ps[:p:p], ps[p+1:]...)
						if sch, ok := try(cand, curSch); ok {
							cur, curSch, curOps, changed = cand, sch, lastOps, true
						}
					}
					if len(cur.Clients[c][i].Batch) > 1 {
						cand := cur.Clone()
						b := cand.Clients[c][i].Batch
						cand.Clients[c][i].Batch = append(b[:m:m], b[m+1:]...)
						if sch, ok := try(cand, curSch); ok {
							cur, curSch, curOps, changed = cand, sch, lastOps, true
						}
					}
				}
				for p := len(cur.Clients[c][i].Params) - 1; p >= 0; p-- {
					if len(cur.Clients[c][i].Params) <= 1 {
						break
					}
					cand := cur.Clone()
					ps := cand.Clients[c][i].Params
					cand.Clients[c][i].Params = append(ps[:p:p], ps[p+1:]...)
					if sch, ok := try(cand, curSch); ok {
						cur, curSch, curOps, changed = cand, sch, lastOps, true
					}
				}
			}
		}

		// 4. simplify the schedule: first the fully sequential default, then fewer context switches
		if len(curSch.ids) > 0 {
			if sch, ok := try(cur, schedT{}); ok && len(sch.ids) <= len(curSch.ids) && !sameInts(sch.ids, curSch.ids) {
				curSch, curOps, changed = sch, lastOps, true
			}
		}
		for i := 1; i < len(curSch.ids); i++ {
			if curSch.ids[i] == curSch.ids[i-1] {
				continue
			}
			// try to let the previous client continue instead of switching here
			cand := schedT{ids: append([]int(nil), curSch.ids[:i]...)}
			for k := 0; k < i; k++ {
				cand.blk = append(cand.blk, curSch.at(k))
			}
			cand.ids = append(cand.ids, curSch.ids[i-1])
			cand.blk = append(cand.blk, false)
			cand.ids = append(cand.ids, curSch.ids[i:]...)
			for k := i; k < len(curSch.ids); k++ {
				cand.blk = append(cand.blk, curSch.at(k))
			}
			if sch, ok := try(cur, cand); ok && switches(sch.ids) < switches(curSch.ids) {
				curSch, curOps, changed = sch, lastOps, true
			}
		}
	}

	// compact: remove clients that ended up empty at the tail
	for len(cur.Clients) > 0 && len(cur.Clients[len(cur.Clients)-1]) == 0 {
		cand := cur.Clone()
		cand.Clients = cand.Clients[:len(cand.Clients)-1]
		sch, ok := try(cand, curSch)
		if !ok {
			break
		}
		cur, curSch, curOps = cand, sch, lastOps
	}
	_ = curOps
	return cur, curSch.ids, curSch.blk, attempts
}

// schedT is a schedule with the recorded outcome of every release.
type schedT struct {
	ids []int
	blk []bool
}

func (s schedT) at(i int) bool { return i < len(s.blk) && s.blk[i] }

func sameInts(a, b []int) bool {
	if len(a) != len(b) {
		return false
	}
	for i := range a {
		if a[i] != b[i] {
			return false
		}
	}
	return true
}

func switches(s []int) int {
	n := 0
	for i := 1; i < len(s); i++ {
		if s[i] != s[i-1] {
			n++
		}
	}
	return n
}
