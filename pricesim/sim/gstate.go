package sim

import (
	"bytes"
	"runtime"
	"strings"
	"sync"
	"sync/atomic"
	"time"
)

// Goroutine states, read from runtime.Stack(all).
//
// The scheduler releases one client goroutine at a time and normally gets it back at the next
// yield point. Code under test may, however, take a lock at a place that has no yield point in
// front of it; if that lock is held by a parked client the released goroutine goes to sleep
// inside sync.Mutex.Lock and no message ever arrives. Whether a goroutine is asleep on such a
// lock (it needs a scheduler decision to continue) or merely slow (it will arrive by itself)
// cannot be told from the elapsed time on a loaded machine. It cannot be told from the wait
// reason of that one goroutine either: the code under test also takes process-wide locks (the
// market-pair table of the pricefeed metrics package, on every telemetry label) on which the
// clients of the parallel workers queue up behind each other for tens of milliseconds when the
// machine is oversubscribed.
//
// What IS exact is a goroutine dump (the world is stopped while it is taken, so it shows one
// instant) in which EVERY simulated client goroutine of the process, of all parallel runs, is
// either parked in the scheduler hand-over or asleep in a wait entered through package sync or
// a channel operation (not a runtime-internal one: a goroutine whose allocation starts a GC cycle
// waits for the semaphore that the dump itself holds), and every scheduler goroutine is at rest
// in the simulator's own code (so that none is inside newCache or the TryLock probe): the holder
// of whatever a sleeper waits for is then itself parked or asleep, so the sleeper cannot
// continue before some scheduler releases somebody. To make such an
// instant occur quickly, a scheduler that sees a released client asleep asks all schedulers to
// stop releasing clients (pause), takes dumps until one is quiescent, classifies from it and
// lifts the pause. The elapsed time therefore only decides WHEN a scheduler looks; WHAT it
// concludes comes from the runtime's own bookkeeping.
//
// Wake-ups are synchronous in the Go runtime (Unlock / RUnlock / Signal / channel operations mark
// the sleeper runnable before they return), so once the goroutine that released a lock has been
// received at its next yield point, a dump shows every sleeper it woke as runnable, running,
// parked, or asleep in a different wait, and every sleeper it did not wake in the wait it was in.

type gWait int

const (
	gActive    gWait = iota // running, runnable, in a syscall, sleeping on a timer, waiting for a simulator-internal lock, ...: arrives by itself
	gParked                 // inside the scheduler hand-over (park): waiting to be released, or its message is on the way
	gLockWait               // asleep in sync.Mutex.Lock / sync.RWMutex.(R)Lock / sync.Cond.Wait / a runtime semaphore, inside the code under test
	gOtherWait              // asleep in a channel operation or select of the code under test
)

type gInfo struct {
	wait  gWait
	state string // wait reason as printed by the runtime
	where string // innermost function outside sync/runtime (the function that takes the lock)
	lock  string // first argument of the innermost sync.(*T) frame: the address of the lock
}

// sameWait reports whether two observations show the goroutine in the very same wait.
func (g gInfo) sameWait(h gInfo) bool {
	return g.wait == h.wait && g.state == h.state && g.where == h.where && g.lock == h.lock
}

func (g gInfo) asleep() bool { return g.wait == gLockWait || g.wait == gOtherWait }

// ownPkg is the import path prefix of this package as it appears in goroutine dumps ("pricesim/sim.").
var ownPkg = func() string {
	pc, _, _, _ := runtime.Caller(0)
	name := runtime.FuncForPC(pc).Name() // pricesim/sim.init.func1 or pricesim/sim.glob..func1
	if i := strings.LastIndexByte(name, '/'); i >= 0 {
		if j := strings.IndexByte(name[i:], '.'); j >= 0 {
			return name[:i+j+1]
		}
	}
	if j := strings.IndexByte(name, '.'); j >= 0 {
		return name[:j+1]
	}
	return "pricesim/sim."
}()

var (
	dumpMu  sync.Mutex
	dumpBuf = make([]byte, 1<<20)
)

// dumpClients takes one goroutine dump and returns the state of every simulated client goroutine
// of the process (all parallel runs), keyed by goroutine id; the map is shared and must not be
// modified. quiescent is true when each of them is parked or asleep and every scheduler goroutine
// is at rest. The world is stopped for the duration of the dump; it is only used after a released
// client has been silent for BlockedAfter, or while a client is known to be asleep on a lock.
// Callers that queued up behind a dump that was STARTED after they asked share its result (it
// shows an instant later than their request, which is all they need).
func dumpClients() (states map[uint64]gInfo, quiescent bool) {
	asked := time.Now()
	dumpMu.Lock()
	defer dumpMu.Unlock()
	if lastDump.states != nil && lastDump.started.After(asked) {
		return lastDump.states, lastDump.quiescent
	}
	started := time.Now()
	var dump []byte
	for {
		n := runtime.Stack(dumpBuf, true)
		if n < len(dumpBuf) || len(dumpBuf) >= 256<<20 {
			dump = dumpBuf[:n]
			break
		}
		dumpBuf = make([]byte, 2*len(dumpBuf))
	}
	states = map[uint64]gInfo{}
	quiescent = parseDump(dump, states)
	lastDump.states, lastDump.quiescent, lastDump.started = states, quiescent, started
	return states, quiescent
}

var lastDump struct {
	states    map[uint64]gInfo
	quiescent bool
	started   time.Time
}

var goroutinePrefix = []byte("goroutine ")

func parseDump(dump []byte, out map[uint64]gInfo) (quiescent bool) {
	quiescent = true
	clientMain := ownPkg + "(*client).main"
	execFn := ownPkg + "Execute("
	for len(dump) > 0 {
		var block []byte
		if i := bytes.Index(dump, []byte("\n\n")); i >= 0 {
			block, dump = dump[:i], dump[i+2:]
		} else {
			block, dump = dump, nil
		}
		if !bytes.HasPrefix(block, goroutinePrefix) {
			continue
		}
		isSched := false
		if !bytes.Contains(block, []byte(clientMain)) {
			if !bytes.Contains(block, []byte(execFn)) {
				continue
			}
			isSched = true
		}
		rest := block[len(goroutinePrefix):]
		var id uint64
		k := 0
		for k < len(rest) && rest[k] >= '0' && rest[k] <= '9' {
			id = id*10 + uint64(rest[k]-'0')
			k++
		}
		rest = rest[k:]
		open := bytes.IndexByte(rest, '[')
		end := bytes.IndexByte(rest, ']')
		if open < 0 || end < open {
			quiescent = false
			continue
		}
		var gi gInfo
		state := string(rest[open+1 : end])
		if c := strings.IndexByte(state, ','); c >= 0 { // "chan receive, 2 minutes", "select, locked to thread"
			state = state[:c]
		}
		gi.state = state
		isClient := false
		harmless := false             // scheduler goroutine inside the dump machinery or the porcupine check
		viaSync, first := false, true // innermost frame outside the runtime is in package sync
		for _, line := range strings.Split(string(rest[end+1:]), "\n") {
			if line == "" || line[0] == '\t' || line[0] == ':' || strings.HasPrefix(line, "created by ") {
				continue
			}
			fn, args := splitFrame(line)
			if fn == clientMain {
				isClient = true
			}
			if isSched && (fn == ownPkg+"dumpClients" || fn == ownPkg+"CheckLinearizable") {
				harmless = true
			}
			if first && !strings.HasPrefix(fn, "runtime.") && !strings.HasPrefix(fn, "internal/") {
				first = false
				viaSync = strings.HasPrefix(fn, "sync.")
			}
			if gi.lock == "" && gi.where == "" && strings.HasPrefix(fn, "sync.(*") && args != "" && args != "..." {
				a := args
				if c := strings.IndexByte(a, ','); c >= 0 {
					a = a[:c]
				}
				gi.lock = strings.TrimSuffix(strings.TrimSpace(a), "?")
			}
			if gi.where == "" && !strings.HasPrefix(fn, "sync.") && !strings.HasPrefix(fn, "runtime.") &&
				!strings.HasPrefix(fn, "internal/") && !strings.HasPrefix(fn, "sync/") && fn != "time.Sleep" {
				gi.where = fn
			}
		}
		if isSched {
			// A scheduler goroutine (inside Execute) is at rest while it waits in the simulator's own code
			// (hand-over channels, pause, dump lock, back-off sleep), takes this dump, or checks a history
			// with porcupine. Anywhere else it might be inside newCache or the TryLock probe, i.e. might
			// hold a lock that a client is waiting for.
			waiting := false
			for _, w := range []string{"chan receive", "chan send", "select", "sync.Cond.Wait", "sync.Mutex.Lock", "sleep"} {
				if strings.HasPrefix(state, w) {
					waiting = true
				}
			}
			if !harmless && !(waiting && strings.HasPrefix(gi.where, ownPkg)) {
				quiescent = false
			}
			continue
		}
		if !isClient {
			continue
		}
		// "semacquire" is also the wait reason of runtime-internal semaphores (a goroutine whose
		// allocation starts a GC cycle waits for worldsema, which the dump itself holds while the
		// world is stopped): only a semaphore wait entered through package sync is a lock wait.
		lockWait := strings.HasPrefix(state, "sync.Mutex.") || strings.HasPrefix(state, "sync.RWMutex.") ||
			strings.HasPrefix(state, "sync.Cond.") || strings.HasPrefix(state, "sync.WaitGroup.") ||
			(strings.HasPrefix(state, "semacquire") && viaSync)
		chanWait := strings.HasPrefix(state, "chan receive") || strings.HasPrefix(state, "chan send") || strings.HasPrefix(state, "select")
		switch {
		case !lockWait && !chanWait:
			gi.wait = gActive
		case strings.HasPrefix(gi.where, ownPkg):
			// innermost frame outside sync/runtime belongs to the simulator itself
			if chanWait {
				gi.wait = gParked // hand-over channels of park
			} else {
				gi.wait = gActive // goroutine registry: held by running goroutines only
			}
		case lockWait:
			gi.wait = gLockWait
		default:
			gi.wait = gOtherWait
		}
		if gi.wait == gActive {
			quiescent = false
		}
		out[id] = gi
	}
	return quiescent
}

// splitFrame splits a frame line of a goroutine dump into function name and argument list:
// "pkg.(*T).method(0xc000012fc0, {0x0?, ...})" -> "pkg.(*T).method", "0xc000012fc0, {0x0?, ...}".
func splitFrame(line string) (fn, args string) {
	line = strings.TrimSpace(line)
	if !strings.HasSuffix(line, ")") {
		return line, ""
	}
	depth := 0
	for i := len(line) - 1; i >= 0; i-- {
		switch line[i] {
		case ')':
			depth++
		case '(':
			depth--
			if depth == 0 {
				return line[:i], line[i+1 : len(line)-1]
			}
		}
	}
	return line, ""
}

// Pause: while pauseN > 0 no scheduler releases a client goroutine (see pausePoint), so that the
// process reaches an instant at which every client goroutine is parked or asleep.
var (
	pauseN    atomic.Int32
	pauseMu   sync.Mutex
	pauseCond = sync.NewCond(&pauseMu)
	pauseCnt  int32
)

func pauseBegin() {
	pauseMu.Lock()
	pauseCnt++
	pauseN.Store(pauseCnt)
	pauseMu.Unlock()
}

func pauseEnd() {
	pauseMu.Lock()
	pauseCnt--
	pauseN.Store(pauseCnt)
	if pauseCnt == 0 {
		pauseCond.Broadcast()
	}
	pauseMu.Unlock()
}

// pausePoint is passed by every scheduler immediately before it lets a client goroutine run.
func pausePoint() {
	if pauseN.Load() == 0 {
		return
	}
	pauseMu.Lock()
	for pauseCnt > 0 {
		pauseCond.Wait()
	}
	pauseMu.Unlock()
}
