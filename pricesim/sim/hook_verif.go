//go:build verif

package sim

import "github.com/tellor-io/layer/lib/simhook"

// InstallHook routes the cache's yield points to the scheduler. Call once, before any run.
func InstallHook() { simhook.Hook = hookFn; hookInstalled = true }

var hookInstalled bool

// HookInstalled reports whether the scheduler hook is active.
func HookInstalled() bool { return hookInstalled }

// BuiltWithVerifTag is true in binaries built with -tags verif.
const BuiltWithVerifTag = true
