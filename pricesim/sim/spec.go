// Package sim is the deterministic simulator for property C20 (price cache
// of the pricefeed daemon server). See cmd/pricesim for the CLI.
package sim

import (
	"encoding/json"
	"fmt"
	"os"
	"sort"
	"strings"
	"time"
)

const PropertyID = "C20"

// Violation kinds.
const (
	KindLinearizability = "linearizability"
	KindMonotonic       = "monotonic_time"
	KindMedian          = "median_reference"
	KindOverlap         = "critical_section_overlap"
	KindDeadlock        = "deadlock"
	KindPanic           = "panic"
	KindDataRace        = "data_race"
)

const (
	OpUpdate = "update"
	OpRead   = "read"
)

// PriceItem is one exchange price inside an update batch.
type PriceItem struct {
	Exchange string `json:"ex"`
	Price    uint64 `json:"price,string"`
	TimeNs   int64  `json:"t_ns"` // absolute UnixNano of LastUpdateTime
	NilTime  bool   `json:"nil_time,omitempty"`
	ZoneOffS int    `json:"zone_off_s,omitempty"` // location of the time.Time value (presentation only)
}

// MarketUpdate is one MarketPriceUpdate of a batch.
type MarketUpdate struct {
	Market uint32      `json:"market"`
	Prices []PriceItem `json:"prices"`
}

// ParamItem is one MarketParam of a read.
type ParamItem struct {
	Market uint32 `json:"market"`
	Min    uint32 `json:"min_exchanges"`
}

// Op is one client operation with concrete arguments.
type Op struct {
	Kind       string         `json:"kind"`
	ViaServer  bool           `json:"via_server,omitempty"` // update issued through Server.UpdateMarketPrices (validation)
	Batch      []MarketUpdate `json:"batch,omitempty"`
	Params     []ParamItem    `json:"params,omitempty"`
	ReadTimeNs int64          `json:"read_t_ns,omitempty"`
	ReadZoneS  int            `json:"read_zone_off_s,omitempty"`
}

// RunSpec is the complete PRNG-free description of the inputs of one run.
type RunSpec struct {
	MaxAgeNs int64  `json:"max_age_ns"`
	Clients  [][]Op `json:"clients"` // index = client id
}

// Replay is the content of a replay file.
type Replay struct {
	Property string  `json:"property"`
	Kind     string  `json:"kind"`
	Mode     string  `json:"mode"` // "sim" (deterministic) or "race" (real-thread stress, not deterministic)
	Seed     uint64  `json:"seed"`
	Run      int64   `json:"run"`
	Spec     RunSpec `json:"spec"`
	Schedule []int   `json:"schedule"` // sequence of client ids released by the scheduler
	// BlockedSteps lists the steps s at which client Schedule[s], after being released, was found
	// asleep on a real lock that it took without a yield point in front of it (it continued by
	// itself when the holder unlocked). Replay waits for exactly this outcome at these steps.
	BlockedSteps []int  `json:"blocked_steps,omitempty"`
	Detail       string `json:"detail"`
	Note         string `json:"note,omitempty"`
}

func (s RunSpec) NumOps() int {
	n := 0
	for _, c := range s.Clients {
		n += len(c)
	}
	return n
}

func (s RunSpec) Clone() RunSpec {
	b, _ := json.Marshal(s)
	var out RunSpec
	_ = json.Unmarshal(b, &out)
	return out
}

// Markets returns the sorted distinct market ids used anywhere in the spec.
func (s RunSpec) Markets() []uint32 {
	seen := map[uint32]bool{}
	var out []uint32
	add := func(m uint32) {
		if !seen[m] {
			seen[m] = true
			out = append(out, m)
		}
	}
	for _, c := range s.Clients {
		for _, op := range c {
			for _, mu := range op.Batch {
				add(mu.Market)
			}
			for _, p := range op.Params {
				add(p.Market)
			}
		}
	}
	sort.Slice(out, func(i, j int) bool { return out[i] < out[j] })
	return out
}

// Exchanges returns the sorted distinct exchange ids used anywhere in the spec.
func (s RunSpec) Exchanges() []string {
	seen := map[string]bool{}
	var out []string
	for _, c := range s.Clients {
		for _, op := range c {
			for _, mu := range op.Batch {
				for _, p := range mu.Prices {
					if !seen[p.Exchange] {
						seen[p.Exchange] = true
						out = append(out, p.Exchange)
					}
				}
			}
		}
	}
	sort.Strings(out)
	return out
}

func WriteReplay(path string, r *Replay) error {
	b, err := json.MarshalIndent(r, "", " ")
	if err != nil {
		return err
	}
	return os.WriteFile(path, append(b, '\n'), 0o644)
}

func ReadReplay(path string) (*Replay, error) {
	b, err := os.ReadFile(path)
	if err != nil {
		return nil, err
	}
	var r Replay
	if err := json.Unmarshal(b, &r); err != nil {
		return nil, err
	}
	if r.Property != PropertyID {
		return nil, fmt.Errorf("replay file is for property %q, not %s", r.Property, PropertyID)
	}
	return &r, nil
}

func mkTime(ns int64, zoneOffS int) time.Time {
	t := time.Unix(0, ns).UTC()
	if zoneOffS != 0 {
		t = t.In(time.FixedZone("sim", zoneOffS))
	}
	return t
}

// String renders an op compactly (used in the event log and in details).
func (op Op) String() string {
	var sb strings.Builder
	if op.Kind == OpUpdate {
		if op.ViaServer {
			sb.WriteString("srvupdate[")
		} else {
			sb.WriteString("update[")
		}
		for i, mu := range op.Batch {
			if i > 0 {
				sb.WriteString(" ")
			}
			fmt.Fprintf(&sb, "m%d{", mu.Market)
			for j, p := range mu.Prices {
				if j > 0 {
					sb.WriteString(",")
				}
				if p.NilTime {
					fmt.Fprintf(&sb, "%s:%d@nil", p.Exchange, p.Price)
				} else {
					fmt.Fprintf(&sb, "%s:%d@%d", p.Exchange, p.Price, p.TimeNs)
				}
			}
			sb.WriteString("}")
		}
		sb.WriteString("]")
		return sb.String()
	}
	fmt.Fprintf(&sb, "read@%d[", op.ReadTimeNs)
	for i, p := range op.Params {
		if i > 0 {
			sb.WriteString(" ")
		}
		fmt.Fprintf(&sb, "m%d>=%d", p.Market, p.Min)
	}
	sb.WriteString("]")
	return sb.String()
}
