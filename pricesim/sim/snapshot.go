package sim

import (
	"fmt"
	"reflect"
	"time"
	"unsafe"

	pftypes "github.com/tellor-io/layer/daemons/pricefeed/types"
	pfserver "github.com/tellor-io/layer/daemons/server/types/pricefeed"
)

// Observation of the cache's internal state. The unexported maps are read through
// unsafe pointers at offsets obtained by reflection (types are verified once at start-up).
// It is only ever called while every simulated goroutine is parked, so no goroutine is
// inside a map operation.

type cellObs struct {
	market   uint32
	exchange string
	price    uint64
	t        time.Time
}

var (
	offMteMap uintptr
	offEtpMap uintptr
	layoutErr error
)

func init() {
	layoutErr = initLayout()
}

func initLayout() error {
	mt := reflect.TypeOf(pfserver.MarketToExchangePrices{})
	f, ok := mt.FieldByName("marketToExchangePrices")
	if !ok {
		return fmt.Errorf("MarketToExchangePrices has no field marketToExchangePrices")
	}
	if f.Type != reflect.TypeOf(map[uint32]*pfserver.ExchangeToPrice{}) {
		return fmt.Errorf("MarketToExchangePrices.marketToExchangePrices has unexpected type %v", f.Type)
	}
	offMteMap = f.Offset
	et := reflect.TypeOf(pfserver.ExchangeToPrice{})
	g, ok := et.FieldByName("exchangeToPriceTimestamp")
	if !ok {
		return fmt.Errorf("ExchangeToPrice has no field exchangeToPriceTimestamp")
	}
	if g.Type != reflect.TypeOf(map[string]*pftypes.PriceTimestamp{}) {
		return fmt.Errorf("ExchangeToPrice.exchangeToPriceTimestamp has unexpected type %v", g.Type)
	}
	offEtpMap = g.Offset
	return nil
}

// LayoutError is non-nil when the cache's struct layout is not what the observer expects.
func LayoutError() error { return layoutErr }

func snapshot(mte *pfserver.MarketToExchangePrices, buf []cellObs) []cellObs {
	buf = buf[:0]
	mm := *(*map[uint32]*pfserver.ExchangeToPrice)(unsafe.Add(unsafe.Pointer(mte), offMteMap))
	for mid, etp := range mm { // order fixed by the sort below
		if etp == nil {
			continue
		}
		em := *(*map[string]*pftypes.PriceTimestamp)(unsafe.Add(unsafe.Pointer(etp), offEtpMap))
		for ex, pt := range em { // order fixed by the sort below
			if pt == nil {
				continue
			}
			buf = append(buf, cellObs{market: mid, exchange: ex, price: pt.Price, t: pt.LastUpdateTime})
		}
	}
	// insertion sort (at most 12 cells; sort.Slice would allocate on this hot path)
	for i := 1; i < len(buf); i++ {
		for j := i; j > 0 && cellLess(buf[j], buf[j-1]); j-- {
			buf[j], buf[j-1] = buf[j-1], buf[j]
		}
	}
	return buf
}

// tryLocker / tryRLocker are satisfied by a struct embedding sync.Mutex / sync.RWMutex.
type tryLocker interface {
	TryLock() bool
	Unlock()
}

type tryRLocker interface {
	TryRLock() bool
	RUnlock()
}

// lockFree probes (without keeping it) whether the cache's lock could be taken now.
// If the cache has no lock at all the answer is always true.
func lockFree(mte *pfserver.MarketToExchangePrices, forRead bool) bool {
	var x interface{} = mte
	if forRead {
		if rl, ok := x.(tryRLocker); ok {
			if rl.TryRLock() {
				rl.RUnlock()
				return true
			}
			return false
		}
	}
	if l, ok := x.(tryLocker); ok {
		if l.TryLock() {
			l.Unlock()
			return true
		}
		return false
	}
	return true
}
