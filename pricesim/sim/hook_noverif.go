//go:build !verif

package sim

// Without the verif build tag the yield points do not exist (shipped code); only the
// free-running race stress mode is available.

func InstallHook() {}

func HookInstalled() bool { return false }

const BuiltWithVerifTag = false

var _ = hookFn
