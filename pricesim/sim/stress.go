package sim

import (
	"bufio"
	"fmt"
	"os"
	"sync"
	"time"
)

// Real-thread stress mode (oracle d). NOT deterministic simulation: goroutines run freely,
// the binary is built with -race and without the scheduler hook; a race report terminates the
// process with exit code 66 (GORACE=halt_on_error=1 exitcode=66 set by the parent).

// StressSeedSalt decorrelates the stress workloads from the simulated ones.
const StressSeedSalt = 0x5afe5afe5afe5afe

// StressOnce runs one workload with free-running goroutines, `repeat` times on fresh caches.
func StressOnce(spec RunSpec, repeat int) (panics int) {
	for k := 0; k < repeat; k++ {
		mte, srv := newCache(spec.MaxAgeNs)
		start := make(chan struct{})
		var wg sync.WaitGroup
		var mu sync.Mutex
		for _, ops := range spec.Clients {
			if len(ops) == 0 {
				continue
			}
			wg.Add(1)
			go func(ops []Op) {
				defer wg.Done()
				<-start
				p := 0
				for _, op := range ops {
					if out := callOp(mte, srv, op); out.Panic != "" {
						p++
					}
				}
				if p > 0 {
					mu.Lock()
					panics += p
					mu.Unlock()
				}
			}(ops)
		}
		close(start)
		wg.Wait()
	}
	return panics
}

// StressLoop generates workloads from (seed, run index) and stresses them until the budget is
// used. It prints "RUN <i>" before each workload so that the parent can attribute a race report.
func StressLoop(seed uint64, budget time.Duration, maxRuns int64, repeat int) {
	w := bufio.NewWriter(os.Stdout)
	deadline := time.Now().Add(budget)
	var i int64
	panics := 0
	for i = 0; (maxRuns <= 0 || i < maxRuns) && time.Now().Before(deadline); i++ {
		spec, _ := Generate(NewRNG(seed^StressSeedSalt, i))
		fmt.Fprintf(w, "RUN %d\n", i)
		w.Flush()
		panics += StressOnce(spec, repeat)
	}
	fmt.Fprintf(w, "STRESS_DONE runs=%d repeat=%d panics=%d\n", i, repeat, panics)
	w.Flush()
}
