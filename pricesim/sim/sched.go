package sim

import (
	"bytes"
	"context"
	"crypto/sha256"
	"fmt"
	"hash"
	"math/rand/v2"
	"os"
	"runtime"
	"sort"
	"strconv"
	"strings"
	"sync"
	"sync/atomic"
	"time"

	"cosmossdk.io/log"
	"github.com/anishathalye/porcupine"
	fastgoid "github.com/petermattis/goid"
	pfclienttypes "github.com/tellor-io/layer/daemons/pricefeed/client/types"
	"github.com/tellor-io/layer/daemons/server"
	servertypes "github.com/tellor-io/layer/daemons/server/types"
	pfserver "github.com/tellor-io/layer/daemons/server/types/pricefeed"
	"github.com/tellor-io/layer/lib"
)

// Watchdog is the longest time the scheduler waits for a released goroutine to park again.
var Watchdog = 5 * time.Second

// PorcupineTimeout is the per-history linearizability check timeout.
var PorcupineTimeout = 30 * time.Second

// disabledOracles (env PRICESIM_DISABLE_ORACLES=overlap,monotonic,median,linearizability) lets the
// sensitivity self-tests show that each oracle catches a defect on its own. Never set in checks.
var disabledOracles = func() map[string]bool {
	m := map[string]bool{}
	for _, k := range strings.Split(os.Getenv("PRICESIM_DISABLE_ORACLES"), ",") {
		if k = strings.TrimSpace(k); k != "" {
			m[k] = true
		}
	}
	return m
}()

// Chooser decides which runnable client is released next.
type Chooser interface {
	Next(runnable []int, last int) int
}

// rngChooser draws from the run's PRNG.
type rngChooser struct {
	r          *rand.Rand
	stickiness float64
}

func (c *rngChooser) Next(runnable []int, last int) int {
	if c.stickiness > 0 && last >= 0 {
		for _, id := range runnable {
			if id == last {
				if c.r.Float64() < c.stickiness {
					return last
				}
				break
			}
		}
	}
	return runnable[c.r.IntN(len(runnable))]
}

// listChooser replays a recorded schedule without any PRNG. Entries that name a client that is
// not runnable (possible only after minimisation or a code change) are skipped; when the list is
// exhausted the lowest-id runnable client continues.
type listChooser struct {
	list []int
	pos  int
}

func (c *listChooser) Next(runnable []int, last int) int {
	for c.pos < len(c.list) {
		want := c.list[c.pos]
		c.pos++
		for _, id := range runnable {
			if id == want {
				return id
			}
		}
	}
	return runnable[0]
}

// Violation describes the first property violation of a run.
type Violation struct {
	Kind   string
	Detail string
}

// RunStats are the per-run measured counters.
type RunStats struct {
	Ops              int
	Yields           int
	Steps            int
	LockContention   int
	OverlapEvents    int // two clients past their Lock yield with unfinished ops
	OverlapWithWrite int
	ConcurrentOps    bool // some op was invoked while an op of another client was in flight
	PorcupineOK      int
	PorcupineUnknown int
	GreyEqualUpdates int
	GreyCutoffReads  int
	StaleUpdates     int
	EqualUpdates     int
	OutOfOrder       int
	BoundaryUpdates  int
	BoundaryReads    int
	OverflowReads    int
	MedianChecks     int
	ServerUpdates    int
	ServerRejected   int
	ValidationOdd    int // server accepted an invalid batch or rejected a valid one (not part of C20, reported only)
	ServedPrices     int
	AbsentPrices     int
}

// ExecResult is the outcome of executing one RunSpec under one schedule.
type ExecResult struct {
	Violation *Violation
	Internal  error
	Schedule  []int
	SchedOp   []int // op index (of the released client) that each scheduling step belonged to
	History   []HistOp
	Stats     RunStats
	LogHash   [32]byte
	SchedHash uint64
	Log       []string // only when ExecOpts.KeepLog
}

type ExecOpts struct {
	KeepLog bool
}

type parkKind int

const (
	parkReady parkKind = iota
	parkYield
	parkOpEnd
	parkExit
	parkWatchdog
)

type parkMsg struct {
	c     *client
	kind  parkKind
	point string
	out   OpOutput
	ws    int64
}

type client struct {
	id       int
	ops      []Op
	run      *simRun
	resume   chan struct{}
	next     int // index of the op that starts at the next release from ready/opEnd
	cur      int // op in flight, -1 if none
	done     bool
	atLock   bool // parked at a "before Lock" yield
	pastLock bool // released from a "before Lock" yield, op not finished
	counted  bool // lock contention already counted for this park
	callSeq  int64
}

type simRun struct {
	spec    RunSpec
	ix      *index
	mte     *pfserver.MarketToExchangePrices
	srv     *server.Server
	clients []*client
	parkCh  chan parkMsg
	aborted bool
	started int

	seq   int64
	h     hash.Hash
	log   []string
	keep  bool
	stats RunStats

	snapBuf  []cellObs
	lastSeen []cellObs // last observed stored time per cell that was ever seen (sorted like snapshots)
	lineBuf  []byte

	// watchdog (see monitor)
	waitSince  atomic.Int64
	waitWhich  atomic.Int32
	stallWs    int64 // monitor only
	stallTicks int   // monitor only
	exitCh     chan parkMsg
}

// goroutine registry used by the hook to find the calling simulated client.
var registry sync.Map // goroutine id (uint64) -> *client

// goid returns the id of the calling goroutine. The fast path reads it from the runtime's g
// (github.com/petermattis/goid); it is cross-checked once against the slow, authoritative
// parse of runtime.Stack, which is used instead if they ever disagree (runtime.Stack takes a
// process-wide lock and would serialise the parallel workers).
func goid() uint64 {
	if fastGoidOK {
		return uint64(fastgoid.Get())
	}
	return slowGoid()
}

var fastGoidOK = func() bool {
	ok := true
	var wg sync.WaitGroup
	var mu sync.Mutex
	for i := 0; i < 8; i++ {
		wg.Add(1)
		go func() {
			defer wg.Done()
			if uint64(fastgoid.Get()) != slowGoid() {
				mu.Lock()
				ok = false
				mu.Unlock()
			}
		}()
	}
	wg.Wait()
	return ok && uint64(fastgoid.Get()) == slowGoid()
}()

// FastGoid reports whether the fast goroutine-id path is in use.
func FastGoid() bool { return fastGoidOK }

func slowGoid() uint64 {
	var buf [64]byte
	n := runtime.Stack(buf[:], false)
	// "goroutine 123 [running]:"
	b := buf[:n]
	b = bytes.TrimPrefix(b, []byte("goroutine "))
	var id uint64
	for _, ch := range b {
		if ch < '0' || ch > '9' {
			break
		}
		id = id*10 + uint64(ch-'0')
	}
	return id
}

// recv is a plain blocking receive (which = 0: park channel, 1: exit channel) that the monitor
// goroutine can interrupt with a watchdog message when it lasts longer than Watchdog. Per-step
// timers would be far more expensive than this.
func (r *simRun) recv(which int32) (parkMsg, bool) {
	for {
		ws := time.Now().UnixNano()
		r.waitWhich.Store(which)
		r.waitSince.Store(ws)
		var m parkMsg
		if which == 0 {
			m = <-r.parkCh
		} else {
			m = <-r.exitCh
		}
		r.waitSince.Store(0)
		if m.kind == parkWatchdog {
			if m.ws != ws {
				continue // stale interrupt aimed at an earlier wait
			}
			return parkMsg{}, false
		}
		return m, true
	}
}

const monitorTick = 250 * time.Millisecond

var watchdogDump sync.Once

var (
	monitorMu   sync.Mutex
	monitorRuns []*simRun
	monitorOnce sync.Once
)

func monitorAdd(r *simRun) {
	monitorOnce.Do(func() { go monitorLoop() })
	monitorMu.Lock()
	monitorRuns = append(monitorRuns, r)
	monitorMu.Unlock()
}

func monitorRemove(r *simRun) {
	monitorMu.Lock()
	for i, x := range monitorRuns {
		if x == r {
			monitorRuns[i] = monitorRuns[len(monitorRuns)-1]
			monitorRuns = monitorRuns[:len(monitorRuns)-1]
			break
		}
	}
	monitorMu.Unlock()
}

// monitorLoop is the watchdog: it never influences a run that makes progress.
func monitorLoop() {
	for {
		time.Sleep(monitorTick)
		now := time.Now().UnixNano()
		monitorMu.Lock()
		for _, r := range monitorRuns {
			ws := r.waitSince.Load()
			// A stall is counted in monitor ticks during which the very same wait is still pending,
			// not only in wall time: a pause of the whole machine (VM freeze) or CPU starvation
			// then does not trip the watchdog.
			if ws == 0 || ws != r.stallWs {
				r.stallWs, r.stallTicks = ws, 0
				continue
			}
			r.stallTicks++
			if now-ws < int64(Watchdog) || r.stallTicks < int(Watchdog/monitorTick) {
				continue
			}
			watchdogDump.Do(func() {
				buf := make([]byte, 256<<10)
				n := runtime.Stack(buf, true)
				fmt.Fprintf(os.Stderr, "pricesim: watchdog fired; goroutine dump follows\n%s\n", buf[:n])
			})
			msg := parkMsg{kind: parkWatchdog, ws: ws}
			if r.waitWhich.Load() == 0 {
				select {
				case r.parkCh <- msg:
				default:
				}
			} else {
				select {
				case r.exitCh <- msg:
				default:
				}
			}
		}
		monitorMu.Unlock()
	}
}

// hookFn is installed as simhook.Hook (build tag verif).
func hookFn(point string) {
	v, ok := registry.Load(goid())
	if !ok {
		return
	}
	c := v.(*client)
	c.park(parkMsg{c: c, kind: parkYield, point: point})
}

// park hands control back to the scheduler and blocks until released.
func (c *client) park(m parkMsg) {
	c.run.parkCh <- m
	<-c.resume
	if c.run.aborted {
		runtime.Goexit()
	}
}

func (c *client) main() {
	defer func() { c.run.exitCh <- parkMsg{c: c, kind: parkExit} }()
	id := goid()
	registry.Store(id, c)
	defer registry.Delete(id)
	c.park(parkMsg{c: c, kind: parkReady})
	for i := range c.ops {
		out := c.run.doOp(c.ops[i])
		if i == len(c.ops)-1 {
			c.run.parkCh <- parkMsg{c: c, kind: parkExit, out: out}
			return
		}
		c.park(parkMsg{c: c, kind: parkOpEnd, out: out})
	}
}

func buildBatch(b []MarketUpdate) []*servertypes.MarketPriceUpdate {
	out := make([]*servertypes.MarketPriceUpdate, 0, len(b))
	for _, mu := range b {
		m := &servertypes.MarketPriceUpdate{MarketId: mu.Market}
		for _, p := range mu.Prices {
			ep := &servertypes.ExchangePrice{ExchangeId: p.Exchange, Price: p.Price}
			if !p.NilTime {
				t := mkTime(p.TimeNs, p.ZoneOffS)
				ep.LastUpdateTime = &t
			}
			m.ExchangePrices = append(m.ExchangePrices, ep)
		}
		out = append(out, m)
	}
	return out
}

func buildParams(ps []ParamItem) []pfclienttypes.MarketParam {
	out := make([]pfclienttypes.MarketParam, 0, len(ps))
	for _, p := range ps {
		out = append(out, pfclienttypes.MarketParam{
			Id: p.Market, Pair: fmt.Sprintf("M%d-USD", p.Market), Exponent: -5,
			MinExchanges: p.Min, MinPriceChangePpm: 50, ExchangeConfigJson: "{}",
		})
	}
	return out
}

// callOp performs one operation against the real cache. It is shared with the race stress mode.
func callOp(mte *pfserver.MarketToExchangePrices, srv *server.Server, op Op) (out OpOutput) {
	defer func() {
		if r := recover(); r != nil {
			out = OpOutput{Panic: fmt.Sprint(r)}
		}
	}()
	switch op.Kind {
	case OpUpdate:
		batch := buildBatch(op.Batch)
		if op.ViaServer {
			_, err := srv.UpdateMarketPrices(context.Background(), &servertypes.UpdateMarketPricesRequest{MarketPriceUpdates: batch})
			out.Rejected = err != nil
		} else {
			mte.UpdatePrices(batch)
		}
	case OpRead:
		res := mte.GetValidMedianPrices(buildParams(op.Params), mkTime(op.ReadTimeNs, op.ReadZoneS))
		keys := make([]uint32, 0, len(res))
		for k := range res { // order fixed by the sort below
			keys = append(keys, k)
		}
		sort.Slice(keys, func(i, j int) bool { return keys[i] < keys[j] })
		for _, k := range keys {
			out.Served = append(out.Served, servedPrice{Market: k, Price: res[k]})
		}
	}
	return out
}

func (r *simRun) doOp(op Op) OpOutput { return callOp(r.mte, r.srv, op) }

func newCache(maxAgeNs int64) (*pfserver.MarketToExchangePrices, *server.Server) {
	mte := pfserver.NewMarketToExchangePrices(time.Duration(maxAgeNs))
	srv := server.NewServer(log.NewNopLogger(), nil, nil, "").WithPriceFeedMarketToExchangePrices(mte)
	return mte, srv
}

func (r *simRun) logf(format string, a ...interface{}) {
	line := fmt.Sprintf(format, a...)
	r.h.Write([]byte(line))
	r.h.Write([]byte{'\n'})
	if r.keep {
		r.log = append(r.log, line)
	}
}

func cellKey(m uint32, e string) string { return fmt.Sprintf("%d/%s", m, e) }

// logYield is the allocation-free fast path of logf for the most frequent event.
func (r *simRun) logLine(b []byte) {
	r.h.Write(b)
	r.h.Write([]byte{'\n'})
	if r.keep {
		r.log = append(r.log, string(b))
	}
}

// observe snapshots the cache, logs a digest and checks oracle (b).
func (r *simRun) observe() *Violation {
	r.snapBuf = snapshot(r.mte, r.snapBuf)
	b := append(r.lineBuf[:0], "  state"...)
	var viol *Violation
	// both r.snapBuf and r.lastSeen are sorted by (market, exchange): merge
	j := 0
	merged := false
	for _, c := range r.snapBuf {
		b = append(b, ' ')
		b = strconv.AppendUint(b, uint64(c.market), 10)
		b = append(b, '/')
		b = append(b, c.exchange...)
		b = append(b, '=')
		b = strconv.AppendUint(b, c.price, 10)
		b = append(b, '@')
		b = strconv.AppendInt(b, c.t.UnixNano(), 10)
		for j < len(r.lastSeen) && cellLess(r.lastSeen[j], c) {
			if viol == nil {
				viol = &Violation{Kind: KindMonotonic, Detail: fmt.Sprintf(
					"stored entry %s (update time %d) vanished from the cache at event %d",
					cellKey(r.lastSeen[j].market, r.lastSeen[j].exchange), r.lastSeen[j].t.UnixNano(), r.seq)}
			}
			j++
		}
		if j < len(r.lastSeen) && r.lastSeen[j].market == c.market && r.lastSeen[j].exchange == c.exchange {
			if prev := r.lastSeen[j].t; c.t.Before(prev) && viol == nil {
				viol = &Violation{Kind: KindMonotonic, Detail: fmt.Sprintf(
					"stored update time of market %d exchange %s moved backwards: %d -> %d (price now %d) at event %d",
					c.market, c.exchange, prev.UnixNano(), c.t.UnixNano(), c.price, r.seq)}
			}
			r.lastSeen[j] = c
			j++
		} else {
			merged = true // new cell
		}
	}
	if j < len(r.lastSeen) && viol == nil {
		viol = &Violation{Kind: KindMonotonic, Detail: fmt.Sprintf(
			"stored entry %s (update time %d) vanished from the cache at event %d",
			cellKey(r.lastSeen[j].market, r.lastSeen[j].exchange), r.lastSeen[j].t.UnixNano(), r.seq)}
	}
	if merged && viol == nil {
		r.lastSeen = append(r.lastSeen[:0], r.snapBuf...)
	}
	r.lineBuf = b
	r.logLine(b)
	return viol
}

func cellLess(a, b cellObs) bool {
	if a.market != b.market {
		return a.market < b.market
	}
	return a.exchange < b.exchange
}

func (r *simRun) stored(m uint32, e string) (cellObs, bool) {
	for _, c := range r.snapBuf {
		if c.market == m && c.exchange == e {
			return c, true
		}
	}
	return cellObs{}, false
}

// classifyUpdate counts timestamp classes of an update at its invocation (measured, dynamic).
func (r *simRun) classifyUpdate(c *client, op Op, readPool []int64) {
	type seenKey struct {
		m uint32
		e string
	}
	var batchSeen []PriceItem
	var batchKeys []seenKey
	for _, mu := range op.Batch {
		for _, p := range mu.Prices {
			if p.NilTime {
				continue
			}
			st, ok := r.stored(mu.Market, p.Exchange)
			equal, stale, ooo := false, false, false
			if ok {
				switch {
				case p.TimeNs == st.t.UnixNano():
					equal = true
				case p.TimeNs < st.t.UnixNano():
					stale = true
				}
			}
			for i, q := range batchSeen {
				if batchKeys[i].m == mu.Market && batchKeys[i].e == p.Exchange {
					if p.TimeNs == q.TimeNs {
						equal = true
					} else if p.TimeNs < q.TimeNs {
						ooo = true
					}
				}
			}
			for _, d := range r.clients {
				if d == c || d.cur < 0 || d.ops[d.cur].Kind != OpUpdate {
					continue
				}
				for _, mu2 := range d.ops[d.cur].Batch {
					if mu2.Market != mu.Market {
						continue
					}
					for _, q := range mu2.Prices {
						if q.Exchange == p.Exchange && !q.NilTime && p.TimeNs < q.TimeNs {
							ooo = true
						}
					}
				}
			}
			if equal {
				r.stats.EqualUpdates++
				r.stats.GreyEqualUpdates++
			}
			if stale {
				r.stats.StaleUpdates++
			}
			if ooo {
				r.stats.OutOfOrder++
			}
			for _, rt := range readPool {
				d := p.TimeNs - (rt - r.spec.MaxAgeNs)
				if d >= -1 && d <= 1 {
					r.stats.BoundaryUpdates++
					break
				}
			}
			batchSeen = append(batchSeen, p)
			batchKeys = append(batchKeys, seenKey{mu.Market, p.Exchange})
		}
	}
}

// checkRead applies oracle (c) and measures read-side coverage at the return of a read.
func (r *simRun) checkRead(op Op, out OpOutput) *Violation {
	cutoff := op.ReadTimeNs - r.spec.MaxAgeNs
	boundary, grey := false, false
	for _, p := range op.Params {
		var fresh, all []uint64
		for _, c := range r.snapBuf {
			if c.market != p.Market {
				continue
			}
			all = append(all, c.price)
			d := c.t.UnixNano() - cutoff
			if d >= 0 {
				fresh = append(fresh, c.price)
			}
			if d >= -1 && d <= 1 {
				boundary = true
			}
			if d == 0 {
				grey = true
			}
		}
		for _, vals := range [][]uint64{fresh, all} {
			if len(vals) == 0 {
				continue
			}
			r.stats.MedianChecks++
			got, err := lib.Median(vals)
			want, _ := RefMedian(vals)
			if err != nil || got != want {
				return &Violation{Kind: KindMedian, Detail: fmt.Sprintf(
					"lib.Median(%v) = %d (err=%v), big-integer reference = %d", vals, got, err, want)}
			}
		}
		if n := len(fresh); n > 0 && n%2 == 0 {
			s := append([]uint64(nil), fresh...)
			sort.Slice(s, func(i, j int) bool { return s[i] < s[j] })
			a, b := s[n/2-1], s[n/2]
			if a+b < a {
				r.stats.OverflowReads++
			}
		}
	}
	if boundary {
		r.stats.BoundaryReads++
	}
	if grey {
		r.stats.GreyCutoffReads++
	}
	r.stats.ServedPrices += len(out.Served)
	r.stats.AbsentPrices += len(op.Params) - len(out.Served)
	return nil
}

func expectedRejection(op Op) bool {
	if len(op.Batch) == 0 {
		return true
	}
	for _, mu := range op.Batch {
		for _, p := range mu.Prices {
			if p.Price == 0 || p.NilTime {
				return true
			}
		}
	}
	return false
}

func readPoolOf(spec RunSpec) []int64 {
	seen := map[int64]bool{}
	var out []int64
	for _, c := range spec.Clients {
		for _, op := range c {
			if op.Kind == OpRead && !seen[op.ReadTimeNs] {
				seen[op.ReadTimeNs] = true
				out = append(out, op.ReadTimeNs)
			}
		}
	}
	sort.Slice(out, func(i, j int) bool { return out[i] < out[j] })
	return out
}

// Execute runs one history: real goroutines, released strictly one at a time.
func Execute(spec RunSpec, ch Chooser, opts ExecOpts) *ExecResult {
	res := &ExecResult{}
	if !HookInstalled() {
		res.Internal = fmt.Errorf("binary built without -tags verif: scheduler hook unavailable")
		return res
	}
	if err := LayoutError(); err != nil {
		res.Internal = err
		return res
	}
	ix, err := newIndex(spec)
	if err != nil {
		res.Internal = err
		return res
	}
	r := &simRun{spec: spec, ix: ix, h: sha256.New(), keep: opts.KeepLog,
		parkCh: make(chan parkMsg), exitCh: make(chan parkMsg, len(spec.Clients)+1)}
	r.mte, r.srv = newCache(spec.MaxAgeNs)
	readPool := readPoolOf(spec)
	r.logf("run maxAge=%d clients=%d", spec.MaxAgeNs, len(spec.Clients))

	monitorAdd(r)
	defer monitorRemove(r)
	wait := func() (parkMsg, bool) { return r.recv(0) }

	// start clients one by one; each parks immediately at "ready"
	for id, ops := range spec.Clients {
		c := &client{id: id, ops: ops, run: r, resume: make(chan struct{}), cur: -1}
		r.clients = append(r.clients, c)
		if len(ops) == 0 {
			c.done = true
			continue
		}
		r.started++
		go c.main()
		if _, ok := wait(); !ok {
			res.Internal = fmt.Errorf("watchdog: client %d did not reach its start point", id)
			return res
		}
	}

	finish := func() {
		// let every parked goroutine exit (runs deferred Unlock calls, nothing else)
		r.aborted = true
		for _, c := range r.clients {
			close(c.resume)
		}
		for n := 0; n < r.started; n++ {
			if _, ok := r.recv(1); !ok {
				if res.Internal == nil && res.Violation == nil {
					res.Internal = fmt.Errorf("watchdog: client goroutines did not exit")
				}
				break
			}
		}
		res.Schedule = append([]int(nil), res.Schedule...)
		res.Stats = r.stats
		copy(res.LogHash[:], r.h.Sum(nil))
		res.Log = r.log
		res.SchedHash = schedHash(spec, res.Schedule)
	}
	defer finish()

	hist := make([]HistOp, 0, spec.NumOps())
	last := -1
	runnable := make([]int, 0, len(r.clients))
	for {
		runnable = runnable[:0]
		allDone := true
		for _, c := range r.clients {
			if c.done {
				continue
			}
			allDone = false
			if c.atLock {
				if !lockFree(r.mte, c.ops[c.cur].Kind == OpRead) {
					if !c.counted {
						c.counted = true
						r.stats.LockContention++
						r.logf("%d c%d blocked-on-lock", r.seq, c.id)
					}
					continue
				}
			}
			runnable = append(runnable, c.id)
		}
		if allDone {
			break
		}
		if len(runnable) == 0 {
			var holders []string
			for _, c := range r.clients {
				if !c.done && c.pastLock {
					holders = append(holders, fmt.Sprintf("c%d", c.id))
				}
			}
			res.Violation = &Violation{Kind: KindDeadlock, Detail: fmt.Sprintf(
				"every unfinished client is waiting for the cache lock, which is held although no operation is inside a critical section (in-flight past Lock: %v)", holders)}
			return res
		}
		pickID := ch.Next(runnable, last)
		last = pickID
		c := r.clients[pickID]
		res.Schedule = append(res.Schedule, pickID)
		if c.cur < 0 {
			res.SchedOp = append(res.SchedOp, c.next)
		} else {
			res.SchedOp = append(res.SchedOp, c.cur)
		}
		r.stats.Steps++
		r.seq++

		if c.cur < 0 {
			// invocation of the next op
			c.cur = c.next
			c.next++
			c.callSeq = r.seq
			op := c.ops[c.cur]
			for _, d := range r.clients {
				if d != c && d.cur >= 0 {
					r.stats.ConcurrentOps = true
				}
			}
			r.logf("%d c%d invoke op%d %s", r.seq, c.id, c.cur, op.String())
			if op.Kind == OpUpdate {
				r.snapBuf = snapshot(r.mte, r.snapBuf)
				r.classifyUpdate(c, op, readPool)
			}
		} else if c.atLock {
			// passing the Lock point: the probe said the lock is free (or absent)
			for _, d := range r.clients {
				if d != c && !d.done && d.pastLock {
					r.stats.OverlapEvents++
					w := c.ops[c.cur].Kind == OpUpdate || d.ops[d.cur].Kind == OpUpdate
					r.logf("%d c%d enters critical section while c%d is inside (writer involved: %v)", r.seq, c.id, d.id, w)
					if w {
						r.stats.OverlapWithWrite++
						if res.Violation == nil && !disabledOracles["overlap"] {
							res.Violation = &Violation{Kind: KindOverlap, Detail: fmt.Sprintf(
								"client %d (%s) passed its Lock point while client %d (%s) was still inside its critical section: the lock does not exclude them (event %d)",
								c.id, c.ops[c.cur].String(), d.id, d.ops[d.cur].String(), r.seq)}
						}
					}
				}
			}
			c.pastLock = true
			c.atLock = false
			c.counted = false
		}
		// an overlap involving a writer is reported only if nothing more specific shows up
		// later in the run: keep going so that the history also shows the consequence.

		c.resume <- struct{}{}
		m, ok := wait()
		if !ok {
			res.Internal = fmt.Errorf("watchdog: client %d did not park within %v after being released (blocked on a real lock?)", c.id, Watchdog)
			return res
		}
		if m.c != c {
			res.Internal = fmt.Errorf("scheduler invariant broken: client %d parked while client %d was released", m.c.id, c.id)
			return res
		}
		r.seq++
		switch m.kind {
		case parkYield:
			r.stats.Yields++
			b := strconv.AppendInt(r.lineBuf[:0], r.seq, 10)
			b = append(b, " c"...)
			b = strconv.AppendInt(b, int64(c.id), 10)
			b = append(b, " yield "...)
			b = append(b, m.point...)
			r.lineBuf = b
			r.logLine(b)
			if strings.HasSuffix(m.point, ".beforeLock") {
				c.atLock = true
			}
		case parkOpEnd, parkExit:
			op := c.ops[c.cur]
			r.stats.Ops++
			r.logf("%d c%d return op%d %s", r.seq, c.id, c.cur, m.out.String())
			hist = append(hist, HistOp{Client: c.id, OpIdx: c.cur, Call: c.callSeq, Return: r.seq, Op: op.String(), Out: m.out, op: op})
			c.cur = -1
			c.pastLock = false
			c.atLock = false
			if m.kind == parkExit {
				c.done = true
			}
			if m.out.Panic != "" {
				res.Violation = &Violation{Kind: KindPanic, Detail: fmt.Sprintf("client %d %s panicked: %s", c.id, op.String(), m.out.Panic)}
			}
			if op.Kind == OpUpdate && op.ViaServer {
				r.stats.ServerUpdates++
				if m.out.Rejected {
					r.stats.ServerRejected++
				}
				if m.out.Rejected != expectedRejection(op) {
					r.stats.ValidationOdd++
				}
			}
		default:
			res.Internal = fmt.Errorf("unexpected park kind %d", m.kind)
			return res
		}
		if v := r.observe(); v != nil && !disabledOracles["monotonic"] && (res.Violation == nil || res.Violation.Kind == KindOverlap) {
			res.Violation = v
		}
		if m.kind == parkOpEnd || m.kind == parkExit {
			if h := hist[len(hist)-1]; h.op.Kind == OpRead && res.Violation == nil {
				if v := r.checkRead(h.op, h.Out); v != nil && !disabledOracles["median"] {
					res.Violation = v
				}
			}
		}
		if res.Violation != nil && res.Violation.Kind != KindOverlap {
			res.History = hist
			return res
		}
	}
	res.History = hist

	// oracle (a): linearizability of the completed history
	if disabledOracles["linearizability"] {
		return res
	}
	switch CheckLinearizable(spec, ix, hist, PorcupineTimeout) {
	case porcupine.Ok:
		r.stats.PorcupineOK++
	case porcupine.Unknown:
		r.stats.PorcupineUnknown++
	case porcupine.Illegal:
		res.Violation = &Violation{Kind: KindLinearizability, Detail: linDetail(spec, hist)}
	}
	return res
}

func linDetail(spec RunSpec, hist []HistOp) string {
	var sb strings.Builder
	fmt.Fprintf(&sb, "history of %d operations is not linearizable against the sequential model (maxAge=%dns):", len(hist), spec.MaxAgeNs)
	for _, h := range hist {
		fmt.Fprintf(&sb, "\n  [%d,%d] c%d %s -> %s", h.Call, h.Return, h.Client, h.Op, h.Out.String())
	}
	return sb.String()
}

// schedHash identifies a schedule: released-client sequence plus the op kinds of every client.
func schedHash(spec RunSpec, schedule []int) uint64 {
	h := uint64(14695981039346656037)
	mix := func(b byte) {
		h ^= uint64(b)
		h *= 1099511628211
	}
	for _, c := range spec.Clients {
		for _, op := range c {
			if op.Kind == OpRead {
				mix('r')
			} else if op.ViaServer {
				mix('s')
			} else {
				mix('u')
			}
		}
		mix('|')
	}
	for _, id := range schedule {
		mix(byte(id))
	}
	return h
}
