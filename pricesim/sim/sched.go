package sim

import (
	"bytes"
	"context"
	"crypto/sha256"
	"fmt"
	"hash"
	"math/rand/v2"
	"os"
	"runtime"
	"sort"
	"strconv"
	"strings"
	"sync"
	"sync/atomic"
	"time"

	"cosmossdk.io/log"
	"github.com/anishathalye/porcupine"
	fastgoid "github.com/petermattis/goid"
	pfclienttypes "github.com/tellor-io/layer/daemons/pricefeed/client/types"
	"github.com/tellor-io/layer/daemons/server"
	servertypes "github.com/tellor-io/layer/daemons/server/types"
	pfserver "github.com/tellor-io/layer/daemons/server/types/pricefeed"
	"github.com/tellor-io/layer/lib"
)

// Watchdog is the longest time the scheduler waits without any progress: no client reaches a
// yield point although at least one released client is neither parked nor asleep on a lock (or
// every unfinished client sleeps in a wait that no client can end). It is the simulator's own
// dead-man switch (exit 2), not part of any verdict.
var Watchdog = 5 * time.Second

// BlockedAfter is how long a released client may stay silent before the scheduler looks at its
// goroutine state (env PRICESIM_BLOCKED_AFTER_MS). It only decides WHEN the scheduler looks: a
// client is classified as "asleep on a real lock" from a goroutine dump in which every client
// goroutine of the process is parked or asleep (see gstate.go), never from the elapsed time. A
// loaded machine therefore delays the classification but cannot change it.
var BlockedAfter = envMillis("PRICESIM_BLOCKED_AFTER_MS", 20*time.Millisecond)

// BlockedConfirm replaces BlockedAfter for a release of which the replayed trace says that it
// ends asleep on a lock (env PRICESIM_BLOCKED_CONFIRM_MS): the scheduler then looks early.
var BlockedConfirm = envMillis("PRICESIM_BLOCKED_CONFIRM_MS", 2*time.Millisecond)

var debugSched = os.Getenv("PRICESIM_DEBUG_SCHED") != ""

// hiddenLocksSeen is set when some run of this process has found a client asleep on a lock.
var hiddenLocksSeen atomic.Bool

func envMillis(name string, def time.Duration) time.Duration {
	if v, err := strconv.ParseFloat(strings.TrimSpace(os.Getenv(name)), 64); err == nil && v > 0 {
		return time.Duration(v * float64(time.Millisecond))
	}
	return def
}

// PorcupineTimeout is the per-history linearizability check timeout.
var PorcupineTimeout = 30 * time.Second

// disabledOracles (env PRICESIM_DISABLE_ORACLES=overlap,monotonic,median,linearizability) lets the
// sensitivity self-tests show that each oracle catches a defect on its own. Never set in checks.
var disabledOracles = func() map[string]bool {
	m := map[string]bool{}
	for _, k := range strings.Split(os.Getenv("PRICESIM_DISABLE_ORACLES"), ",") {
		if k = strings.TrimSpace(k); k != "" {
			m[k] = true
		}
	}
	return m
}()

// Chooser decides which runnable client is released next.
type Chooser interface {
	Next(runnable []int, last int) int
}

// rngChooser draws from the run's PRNG.
type rngChooser struct {
	r          *rand.Rand
	stickiness float64
}

func (c *rngChooser) Next(runnable []int, last int) int {
	if c.stickiness > 0 && last >= 0 {
		for _, id := range runnable {
			if id == last {
				if c.r.Float64() < c.stickiness {
					return last
				}
				break
			}
		}
	}
	return runnable[c.r.IntN(len(runnable))]
}

// listChooser replays a recorded schedule without any PRNG. Entries that name a client that is
// not runnable (possible only after minimisation or a code change) are skipped; when the list is
// exhausted the lowest-id runnable client continues.
//
// blk (parallel to list, may be shorter) is the recorded outcome of each release: true = the
// released client was found asleep on a lock it took without a yield point. The scheduler uses
// it as the expected outcome of the step (see await); the classification itself is always taken
// from the goroutine state, so a stale expectation costs time, never correctness.
type listChooser struct {
	list    []int
	blk     []bool
	pos     int
	lastBlk bool
}

func (c *listChooser) Next(runnable []int, last int) int {
	c.lastBlk = false
	for c.pos < len(c.list) {
		i := c.pos
		want := c.list[i]
		c.pos++
		for _, id := range runnable {
			if id == want {
				c.lastBlk = i < len(c.blk) && c.blk[i]
				return id
			}
		}
	}
	return runnable[0]
}

// ExpectBlocked reports the recorded outcome of the release that Next just returned.
func (c *listChooser) ExpectBlocked() bool { return c.lastBlk }

// blockExpecter is implemented by choosers that replay a recorded trace.
type blockExpecter interface{ ExpectBlocked() bool }

// Violation describes the first property violation of a run.
type Violation struct {
	Kind   string
	Detail string
}

// RunStats are the per-run measured counters.
type RunStats struct {
	Ops              int
	Yields           int
	Steps            int
	LockContention   int
	OverlapEvents    int // two clients past their Lock yield with unfinished ops
	OverlapWithWrite int
	ConcurrentOps    bool // some op was invoked while an op of another client was in flight
	PorcupineOK      int
	PorcupineUnknown int
	GreyEqualUpdates int
	GreyCutoffReads  int
	StaleUpdates     int
	EqualUpdates     int
	OutOfOrder       int
	BoundaryUpdates  int
	BoundaryReads    int
	OverflowReads    int
	MedianChecks     int
	ServerUpdates    int
	ServerRejected   int
	ValidationOdd    int // server accepted an invalid batch or rejected a valid one (not part of C20, reported only)
	ServedPrices     int
	AbsentPrices     int
	HiddenLockSleeps int // a released client went to sleep on a lock that it took without a yield point in front
	HiddenLockWakes  int // such a client got the lock and reached its next yield point / its end
	MultiMarketReads int // reads that request >= 2 markets
	MultiMarketUpds  int // updates that carry items for >= 2 distinct markets
	SnapshotWindows  int // (read, update) pairs in flight together where the update touches >= 2 markets requested by the read
}

// ExecResult is the outcome of executing one RunSpec under one schedule.
type ExecResult struct {
	Violation *Violation
	Internal  error
	Schedule  []int
	BlockedAt []bool // parallel to Schedule: the client released at this step was found asleep on a real lock
	SchedOp   []int  // op index (of the released client) that each scheduling step belonged to
	History   []HistOp
	Stats     RunStats
	LogHash   [32]byte
	SchedHash uint64
	Log       []string // only when ExecOpts.KeepLog
}

type ExecOpts struct {
	KeepLog bool
}

type parkKind int

const (
	parkReady parkKind = iota
	parkYield
	parkOpEnd
	parkExit
	parkWatchdog
	parkProbe // from the monitor: the current wait has lasted until probeAt, have a look at the goroutine states
)

// clientState is the scheduler's view of a client goroutine.
type clientState int

const (
	stParked   clientState = iota // waiting on its resume channel (or finished)
	stReleased                    // released and not heard of since: on its way to the next yield point
	stBlocked                     // released and found asleep on a lock (or channel) of the code under test
)

type parkMsg struct {
	c     *client
	kind  parkKind
	point string
	out   OpOutput
	ws    int64
}

type client struct {
	id       int
	ops      []Op
	run      *simRun
	resume   chan struct{}
	next     int // index of the op that starts at the next release from ready/opEnd
	cur      int // op in flight, -1 if none
	done     bool
	atLock   bool // parked at a "before Lock" yield
	pastLock bool // released from a "before Lock" yield, op not finished
	counted  bool // lock contention already counted for this park
	callSeq  int64

	gid      uint64      // goroutine id, set by the goroutine itself before its first park
	state    clientState // scheduler goroutine only
	stash    parkMsg     // park message received but not yet processed (valid iff stashed)
	stashed  bool
	gi       gInfo // the wait in which the client was classified as asleep (valid while stBlocked)
	seen     gInfo // result of the most recent look
	started  bool
	exited   bool
	unparked bool // resume channel closed (abort)
}

type simRun struct {
	spec    RunSpec
	ix      *index
	mte     *pfserver.MarketToExchangePrices
	srv     *server.Server
	clients []*client
	parkCh  chan parkMsg
	aborted atomic.Bool
	started int

	seq   int64
	h     hash.Hash
	log   []string
	keep  bool
	stats RunStats

	snapBuf  []cellObs
	lastSeen []cellObs // last observed stored time per cell that was ever seen (sorted like snapshots)
	lineBuf  []byte

	// watchdog and probe (see monitor)
	waitSince  atomic.Int64
	waitWhich  atomic.Int32
	probeAt    atomic.Int64     // UnixNano after which the monitor interrupts the wait with a parkProbe (0 = never)
	curWs      int64            // scheduler goroutine only: start of the current wait
	dump       map[uint64]gInfo // most recent goroutine dump (client goroutines of the whole process; shared, read-only)
	stallWs    int64            // monitor only
	stallTicks int              // monitor only
	exitCh     chan parkMsg
}

// goroutine registry used by the hook to find the calling simulated client.
var registry sync.Map // goroutine id (uint64) -> *client

// goid returns the id of the calling goroutine. The fast path reads it from the runtime's g
// (github.com/petermattis/goid); it is cross-checked once against the slow, authoritative
// parse of runtime.Stack, which is used instead if they ever disagree (runtime.Stack takes a
// process-wide lock and would serialise the parallel workers).
func goid() uint64 {
	if fastGoidOK {
		return uint64(fastgoid.Get())
	}
	return slowGoid()
}

var fastGoidOK = func() bool {
	ok := true
	var wg sync.WaitGroup
	var mu sync.Mutex
	for i := 0; i < 8; i++ {
		wg.Add(1)
		go func() {
			defer wg.Done()
			if uint64(fastgoid.Get()) != slowGoid() {
				mu.Lock()
				ok = false
				mu.Unlock()
			}
		}()
	}
	wg.Wait()
	return ok && uint64(fastgoid.Get()) == slowGoid()
}()

// FastGoid reports whether the fast goroutine-id path is in use.
func FastGoid() bool { return fastGoidOK }

func slowGoid() uint64 {
	var buf [64]byte
	n := runtime.Stack(buf[:], false)
	// "goroutine 123 [running]:"
	b := buf[:n]
	b = bytes.TrimPrefix(b, []byte("goroutine "))
	var id uint64
	for _, ch := range b {
		if ch < '0' || ch > '9' {
			break
		}
		id = id*10 + uint64(ch-'0')
	}
	return id
}

type recvStatus int

const (
	recvMsg      recvStatus = iota // a client parked (or exited)
	recvProbe                      // the wait reached probeAt: look at the goroutine states and wait on
	recvWatchdog                   // no progress for Watchdog
)

// recv is a plain blocking receive (which = 0: park channel, 1: park and exit channel) that the
// monitor goroutine can interrupt: with a probe message once the wait has lasted `probe` (0 = no
// probe) and with a watchdog message when it lasts longer than Watchdog. Per-step timers would
// be far more expensive than this. cont continues the wait that a probe interrupted (the
// watchdog keeps counting from its start).
func (r *simRun) recv(which int32, cont bool, probe time.Duration) (m parkMsg, fromExit bool, st recvStatus) {
	now := time.Now().UnixNano()
	if !cont || r.curWs == 0 {
		r.curWs = now
	}
	ws := r.curWs
	if probe > 0 {
		r.probeAt.Store(now + int64(probe))
	} else {
		r.probeAt.Store(0)
	}
	r.waitWhich.Store(which)
	r.waitSince.Store(ws)
	for {
		fromExit = false
		if which == 0 {
			m = <-r.parkCh
		} else {
			select {
			case m = <-r.parkCh:
			case m = <-r.exitCh:
				fromExit = true
			}
		}
		switch m.kind {
		case parkWatchdog:
			if m.ws != ws {
				continue // stale interrupt aimed at an earlier wait
			}
			r.waitSince.Store(0)
			r.probeAt.Store(0)
			r.curWs = 0
			return parkMsg{}, false, recvWatchdog
		case parkProbe:
			if m.ws != ws || probe <= 0 {
				continue
			}
			// waitSince stays set: the same wait goes on after the look
			return parkMsg{}, false, recvProbe
		}
		r.waitSince.Store(0)
		r.probeAt.Store(0)
		r.curWs = 0
		return m, fromExit, recvMsg
	}
}

// monitorTick is the period of the monitor goroutine: 2 ms, less if BlockedAfter is set below 4 ms
// (only done to stress the classification in self-tests).
var monitorTick = tickFor(BlockedAfter)

func tickFor(blockedAfter time.Duration) time.Duration {
	t := 2 * time.Millisecond
	if blockedAfter/2 < t {
		t = blockedAfter / 2
	}
	if t < 20*time.Microsecond {
		t = 20 * time.Microsecond
	}
	return t
}

// SetBlockedAfter overrides BlockedAfter (command line); call before the first run.
func SetBlockedAfter(d time.Duration) {
	if d > 0 {
		BlockedAfter = d
		monitorTick = tickFor(d)
	}
}

var watchdogDump sync.Once

var (
	monitorMu   sync.Mutex
	monitorRuns []*simRun
	monitorOnce sync.Once
)

func monitorAdd(r *simRun) {
	monitorOnce.Do(func() { go monitorLoop() })
	monitorMu.Lock()
	monitorRuns = append(monitorRuns, r)
	monitorMu.Unlock()
}

func monitorRemove(r *simRun) {
	monitorMu.Lock()
	for i, x := range monitorRuns {
		if x == r {
			monitorRuns[i] = monitorRuns[len(monitorRuns)-1]
			monitorRuns = monitorRuns[:len(monitorRuns)-1]
			break
		}
	}
	monitorMu.Unlock()
}

// monitorLoop delivers probes and is the watchdog: it never influences a run that makes progress
// (a probe only makes the scheduler look at goroutine states, which changes nothing unless a
// goroutine really sleeps on a lock).
func monitorLoop() {
	for {
		time.Sleep(monitorTick)
		now := time.Now().UnixNano()
		monitorMu.Lock()
		for _, r := range monitorRuns {
			ws := r.waitSince.Load()
			// A stall is counted in monitor ticks during which the very same wait is still pending,
			// not only in wall time: a pause of the whole machine (VM freeze) or CPU starvation
			// then does not trip the watchdog.
			if ws == 0 || ws != r.stallWs {
				r.stallWs, r.stallTicks = ws, 0
				continue
			}
			r.stallTicks++
			if pa := r.probeAt.Load(); pa != 0 && now >= pa {
				select {
				case r.parkCh <- parkMsg{kind: parkProbe, ws: ws}:
					r.probeAt.CompareAndSwap(pa, 0)
				default: // the scheduler is not in its receive right now: next tick
				}
			}
			if now-ws < int64(Watchdog) || r.stallTicks < int(Watchdog/monitorTick) {
				continue
			}
			watchdogDump.Do(func() {
				buf := make([]byte, 256<<10)
				n := runtime.Stack(buf, true)
				fmt.Fprintf(os.Stderr, "pricesim: watchdog fired; goroutine dump follows\n%s\n", buf[:n])
			})
			msg := parkMsg{kind: parkWatchdog, ws: ws}
			if r.waitWhich.Load() == 0 {
				select {
				case r.parkCh <- msg:
				default:
				}
			} else {
				select {
				case r.exitCh <- msg:
				default:
				}
			}
		}
		monitorMu.Unlock()
	}
}

// hookFn is installed as simhook.Hook (build tag verif).
func hookFn(point string) {
	v, ok := registry.Load(goid())
	if !ok {
		return
	}
	c := v.(*client)
	c.park(parkMsg{c: c, kind: parkYield, point: point})
}

// park hands control back to the scheduler and blocks until released. After the run has been
// aborted (violation found, or trouble) a goroutine that arrives here exits instead: this is
// how a client that was asleep on a lock leaves once the holder's deferred Unlock has run.
func (c *client) park(m parkMsg) {
	if c.run.aborted.Load() {
		runtime.Goexit()
	}
	c.run.parkCh <- m
	if m.kind == parkExit {
		return
	}
	<-c.resume
	if c.run.aborted.Load() {
		runtime.Goexit()
	}
}

func (c *client) main() {
	defer func() { c.run.exitCh <- parkMsg{c: c, kind: parkExit} }()
	id := goid()
	c.gid = id
	registry.Store(id, c)
	defer registry.Delete(id)
	c.park(parkMsg{c: c, kind: parkReady})
	for i := range c.ops {
		out := c.run.doOp(c.ops[i])
		kind := parkOpEnd
		if i == len(c.ops)-1 {
			kind = parkExit
		}
		c.park(parkMsg{c: c, kind: kind, out: out})
	}
}

func buildBatch(b []MarketUpdate) []*servertypes.MarketPriceUpdate {
	out := make([]*servertypes.MarketPriceUpdate, 0, len(b))
	for _, mu := range b {
		m := &servertypes.MarketPriceUpdate{MarketId: mu.Market}
		for _, p := range mu.Prices {
			ep := &servertypes.ExchangePrice{ExchangeId: p.Exchange, Price: p.Price}
			if !p.NilTime {
				t := mkTime(p.TimeNs, p.ZoneOffS)
				ep.LastUpdateTime = &t
			}
			m.ExchangePrices = append(m.ExchangePrices, ep)
		}
		out = append(out, m)
	}
	return out
}

func buildParams(ps []ParamItem) []pfclienttypes.MarketParam {
	out := make([]pfclienttypes.MarketParam, 0, len(ps))
	for _, p := range ps {
		out = append(out, pfclienttypes.MarketParam{
			Id: p.Market, Pair: fmt.Sprintf("M%d-USD", p.Market), Exponent: -5,
			MinExchanges: p.Min, MinPriceChangePpm: 50, ExchangeConfigJson: "{}",
		})
	}
	return out
}

// callOp performs one operation against the real cache. It is shared with the race stress mode.
func callOp(mte *pfserver.MarketToExchangePrices, srv *server.Server, op Op) (out OpOutput) {
	defer func() {
		if r := recover(); r != nil {
			out = OpOutput{Panic: fmt.Sprint(r)}
		}
	}()
	switch op.Kind {
	case OpUpdate:
		batch := buildBatch(op.Batch)
		if op.ViaServer {
			_, err := srv.UpdateMarketPrices(context.Background(), &servertypes.UpdateMarketPricesRequest{MarketPriceUpdates: batch})
			out.Rejected = err != nil
		} else {
			mte.UpdatePrices(batch)
		}
	case OpRead:
		res := mte.GetValidMedianPrices(buildParams(op.Params), mkTime(op.ReadTimeNs, op.ReadZoneS))
		keys := make([]uint32, 0, len(res))
		for k := range res { // order fixed by the sort below
			keys = append(keys, k)
		}
		sort.Slice(keys, func(i, j int) bool { return keys[i] < keys[j] })
		for _, k := range keys {
			out.Served = append(out.Served, servedPrice{Market: k, Price: res[k]})
		}
	}
	return out
}

func (r *simRun) doOp(op Op) OpOutput { return callOp(r.mte, r.srv, op) }

func newCache(maxAgeNs int64) (*pfserver.MarketToExchangePrices, *server.Server) {
	mte := pfserver.NewMarketToExchangePrices(time.Duration(maxAgeNs))
	srv := server.NewServer(log.NewNopLogger(), nil, nil, "").WithPriceFeedMarketToExchangePrices(mte)
	return mte, srv
}

func (r *simRun) logf(format string, a ...interface{}) {
	line := fmt.Sprintf(format, a...)
	r.h.Write([]byte(line))
	r.h.Write([]byte{'\n'})
	if r.keep {
		r.log = append(r.log, line)
	}
}

func cellKey(m uint32, e string) string { return fmt.Sprintf("%d/%s", m, e) }

// logYield is the allocation-free fast path of logf for the most frequent event.
func (r *simRun) logLine(b []byte) {
	r.h.Write(b)
	r.h.Write([]byte{'\n'})
	if r.keep {
		r.log = append(r.log, string(b))
	}
}

// observe snapshots the cache, logs a digest and checks oracle (b).
func (r *simRun) observe() *Violation {
	r.snapBuf = snapshot(r.mte, r.snapBuf)
	b := append(r.lineBuf[:0], "  state"...)
	var viol *Violation
	// both r.snapBuf and r.lastSeen are sorted by (market, exchange): merge
	j := 0
	merged := false
	for _, c := range r.snapBuf {
		b = append(b, ' ')
		b = strconv.AppendUint(b, uint64(c.market), 10)
		b = append(b, '/')
		b = append(b, c.exchange...)
		b = append(b, '=')
		b = strconv.AppendUint(b, c.price, 10)
		b = append(b, '@')
		b = strconv.AppendInt(b, c.t.UnixNano(), 10)
		for j < len(r.lastSeen) && cellLess(r.lastSeen[j], c) {
			if viol == nil {
				viol = &Violation{Kind: KindMonotonic, Detail: fmt.Sprintf(
					"stored entry %s (update time %d) vanished from the cache at event %d",
					cellKey(r.lastSeen[j].market, r.lastSeen[j].exchange), r.lastSeen[j].t.UnixNano(), r.seq)}
			}
			j++
		}
		if j < len(r.lastSeen) && r.lastSeen[j].market == c.market && r.lastSeen[j].exchange == c.exchange {
			if prev := r.lastSeen[j].t; c.t.Before(prev) && viol == nil {
				viol = &Violation{Kind: KindMonotonic, Detail: fmt.Sprintf(
					"stored update time of market %d exchange %s moved backwards: %d -> %d (price now %d) at event %d",
					c.market, c.exchange, prev.UnixNano(), c.t.UnixNano(), c.price, r.seq)}
			}
			r.lastSeen[j] = c
			j++
		} else {
			merged = true // new cell
		}
	}
	if j < len(r.lastSeen) && viol == nil {
		viol = &Violation{Kind: KindMonotonic, Detail: fmt.Sprintf(
			"stored entry %s (update time %d) vanished from the cache at event %d",
			cellKey(r.lastSeen[j].market, r.lastSeen[j].exchange), r.lastSeen[j].t.UnixNano(), r.seq)}
	}
	if merged && viol == nil {
		r.lastSeen = append(r.lastSeen[:0], r.snapBuf...)
	}
	r.lineBuf = b
	r.logLine(b)
	return viol
}

func cellLess(a, b cellObs) bool {
	if a.market != b.market {
		return a.market < b.market
	}
	return a.exchange < b.exchange
}

func (r *simRun) stored(m uint32, e string) (cellObs, bool) {
	for _, c := range r.snapBuf {
		if c.market == m && c.exchange == e {
			return c, true
		}
	}
	return cellObs{}, false
}

// classifyUpdate counts timestamp classes of an update at its invocation (measured, dynamic).
func (r *simRun) classifyUpdate(c *client, op Op, readPool []int64) {
	type seenKey struct {
		m uint32
		e string
	}
	var batchSeen []PriceItem
	var batchKeys []seenKey
	for _, mu := range op.Batch {
		for _, p := range mu.Prices {
			if p.NilTime {
				continue
			}
			st, ok := r.stored(mu.Market, p.Exchange)
			equal, stale, ooo := false, false, false
			if ok {
				switch {
				case p.TimeNs == st.t.UnixNano():
					equal = true
				case p.TimeNs < st.t.UnixNano():
					stale = true
				}
			}
			for i, q := range batchSeen {
				if batchKeys[i].m == mu.Market && batchKeys[i].e == p.Exchange {
					if p.TimeNs == q.TimeNs {
						equal = true
					} else if p.TimeNs < q.TimeNs {
						ooo = true
					}
				}
			}
			for _, d := range r.clients {
				if d == c || d.cur < 0 || d.ops[d.cur].Kind != OpUpdate {
					continue
				}
				for _, mu2 := range d.ops[d.cur].Batch {
					if mu2.Market != mu.Market {
						continue
					}
					for _, q := range mu2.Prices {
						if q.Exchange == p.Exchange && !q.NilTime && p.TimeNs < q.TimeNs {
							ooo = true
						}
					}
				}
			}
			if equal {
				r.stats.EqualUpdates++
				r.stats.GreyEqualUpdates++
			}
			if stale {
				r.stats.StaleUpdates++
			}
			if ooo {
				r.stats.OutOfOrder++
			}
			for _, rt := range readPool {
				d := p.TimeNs - (rt - r.spec.MaxAgeNs)
				if d >= -1 && d <= 1 {
					r.stats.BoundaryUpdates++
					break
				}
			}
			batchSeen = append(batchSeen, p)
			batchKeys = append(batchKeys, seenKey{mu.Market, p.Exchange})
		}
	}
}

// checkRead applies oracle (c) and measures read-side coverage at the return of a read.
func (r *simRun) checkRead(op Op, out OpOutput) *Violation {
	cutoff := op.ReadTimeNs - r.spec.MaxAgeNs
	boundary, grey := false, false
	for _, p := range op.Params {
		var fresh, all []uint64
		for _, c := range r.snapBuf {
			if c.market != p.Market {
				continue
			}
			all = append(all, c.price)
			d := c.t.UnixNano() - cutoff
			if d >= 0 {
				fresh = append(fresh, c.price)
			}
			if d >= -1 && d <= 1 {
				boundary = true
			}
			if d == 0 {
				grey = true
			}
		}
		for _, vals := range [][]uint64{fresh, all} {
			if len(vals) == 0 {
				continue
			}
			r.stats.MedianChecks++
			got, err := lib.Median(vals)
			want, _ := RefMedian(vals)
			if err != nil || got != want {
				return &Violation{Kind: KindMedian, Detail: fmt.Sprintf(
					"lib.Median(%v) = %d (err=%v), big-integer reference = %d", vals, got, err, want)}
			}
		}
		if n := len(fresh); n > 0 && n%2 == 0 {
			s := append([]uint64(nil), fresh...)
			sort.Slice(s, func(i, j int) bool { return s[i] < s[j] })
			a, b := s[n/2-1], s[n/2]
			if a+b < a {
				r.stats.OverflowReads++
			}
		}
	}
	if boundary {
		r.stats.BoundaryReads++
	}
	if grey {
		r.stats.GreyCutoffReads++
	}
	r.stats.ServedPrices += len(out.Served)
	r.stats.AbsentPrices += len(op.Params) - len(out.Served)
	return nil
}

func expectedRejection(op Op) bool {
	if len(op.Batch) == 0 {
		return true
	}
	for _, mu := range op.Batch {
		for _, p := range mu.Prices {
			if p.Price == 0 || p.NilTime {
				return true
			}
		}
	}
	return false
}

func readPoolOf(spec RunSpec) []int64 {
	seen := map[int64]bool{}
	var out []int64
	for _, c := range spec.Clients {
		for _, op := range c {
			if op.Kind == OpRead && !seen[op.ReadTimeNs] {
				seen[op.ReadTimeNs] = true
				out = append(out, op.ReadTimeNs)
			}
		}
	}
	sort.Slice(out, func(i, j int) bool { return out[i] < out[j] })
	return out
}

// peek takes one ordinary goroutine dump and updates the scheduler's view of its sleepers: a
// client that is no longer in the wait in which it was classified has been woken (stReleased
// again). It reports whether a released client looks asleep inside the code under test, which
// classify then settles exactly.
func (r *simRun) peek() (candidate bool) {
	r.dump, _ = dumpClients()
	return r.apply(false)
}

// apply evaluates r.dump for the clients of this run. exact = the dump was quiescent (see gstate.go).
func (r *simRun) apply(exact bool) (candidate bool) {
	for _, c := range r.clients {
		if !c.started || c.exited || c.done || c.state == stParked {
			continue
		}
		gi := r.dump[c.gid] // zero value (gActive) if the goroutine is not in the dump
		if c.state == stBlocked && !gi.sameWait(c.gi) {
			c.state = stReleased // woken (and possibly asleep again somewhere else)
		}
		if c.state == stReleased {
			c.seen = gi
			if gi.asleep() {
				if exact {
					c.state, c.gi = stBlocked, gi
					hiddenLocksSeen.Store(true)
				} else {
					candidate = true
				}
			}
		}
	}
	return candidate
}

// classify settles, exactly, which released clients of this run are asleep inside the code
// under test: it asks every scheduler of the process to stop releasing clients, takes dumps until
// one shows every client goroutine of the process parked or asleep, and classifies from that one.
// It gives up early when no client of this run looks asleep any more (it was a short wait for a
// process-wide lock held by a running goroutine of another worker). force = go for a quiescent dump
// even then (used before a dead-lock verdict).
func (r *simRun) classify(force bool) error {
	pauseBegin()
	defer pauseEnd()
	t0 := time.Now()
	wait := 50 * time.Microsecond
	dumps := 0
	for {
		var quiescent bool
		r.dump, quiescent = dumpClients()
		dumps++
		if quiescent {
			r.apply(true)
			if debugSched {
				fmt.Fprintf(os.Stderr, "pricesim debug: classified after %d dumps, %v (wait began %v ago)\n", dumps, time.Since(t0), time.Duration(time.Now().UnixNano()-r.curWs))
			}
			return nil
		}
		if !r.apply(false) && !force {
			return nil
		}
		if time.Since(t0) > Watchdog {
			return fmt.Errorf("watchdog: the client goroutines of the process did not all come to rest within %v while classifying a silent client", Watchdog)
		}
		time.Sleep(wait)
		if wait < 2*time.Millisecond {
			wait *= 2
		}
	}
}

func (r *simRun) count(st clientState) int {
	n := 0
	for _, c := range r.clients {
		if c.started && !c.exited && !c.done && c.state == st {
			n++
		}
	}
	return n
}

// await returns when the run is quiescent again: every released client has either reached a
// yield point / its end (its message is stashed in the client) or is asleep on a lock of the
// code under test (stBlocked), and every client that was asleep before and got woken by what
// happened in this step has done the same. expectBlocked is the recorded outcome of the step
// under replay: the first look then happens after BlockedConfirm instead of BlockedAfter.
//
// The result does not depend on when the looks happen: whether a goroutine ends up at a yield
// point or asleep is decided by the state of the locks, which only the (single) running client
// changes; the elapsed time merely triggers a look at the runtime's goroutine states.
func (r *simRun) await(expectBlocked bool) error {
	verify := false // something happened since the sleepers were last seen asleep
	cont := false
	// Once a sleeper has been found in this process the code under test evidently takes locks
	// without yield points: look early from then on (looking early costs a dump, nothing else).
	first := BlockedAfter
	if expectBlocked || hiddenLocksSeen.Load() {
		first = BlockedConfirm
	}
	delay := first
	for {
		if r.count(stReleased) == 0 {
			if !verify || r.count(stBlocked) == 0 {
				return nil
			}
			r.peek()
			verify = false
			continue
		}
		m, _, st := r.recv(0, cont, delay)
		switch st {
		case recvMsg:
			x := m.c
			if x == nil || x.state == stParked || x.stashed {
				id := -1
				if x != nil {
					id = x.id
				}
				return fmt.Errorf("scheduler invariant broken: client %d parked although it had not been released", id)
			}
			x.state, x.stash, x.stashed = stParked, m, true
			verify, cont = true, false
			delay = first
		case recvProbe:
			cont = true
			if r.peek() {
				if err := r.classify(false); err != nil {
					return err
				}
				delay = first
			} else if delay *= 2; delay > time.Second {
				delay = time.Second
			}
			verify = false
		default:
			var who []string
			for _, c := range r.clients {
				if c.started && !c.exited && c.state == stReleased {
					who = append(who, fmt.Sprintf("client %d (goroutine state %q in %s)", c.id, c.seen.state, c.seen.where))
				}
			}
			return fmt.Errorf("watchdog: %s neither reached a yield point nor went to sleep on a lock within %v after being released", strings.Join(who, ", "), Watchdog)
		}
	}
}

// Execute runs one history: real goroutines, released strictly one at a time.
//
// One-at-a-time holds for everything that goes through yield points. A client that takes a lock
// WITHOUT a yield point in front of it, while a parked client holds that lock, goes to sleep
// inside the real Lock call; the scheduler notices (await), keeps it in the blocked set and goes
// on with the other clients. When the holder is released and unlocks, the sleeper continues by
// itself up to its next yield point (or the end of its operation) and re-enters the scheduler
// there; the step of the client that unlocked only ends when that has happened, so the next
// scheduling decision is again taken with every goroutine parked or asleep.
func Execute(spec RunSpec, ch Chooser, opts ExecOpts) *ExecResult {
	res := &ExecResult{}
	if !HookInstalled() {
		res.Internal = fmt.Errorf("binary built without -tags verif: scheduler hook unavailable")
		return res
	}
	if err := LayoutError(); err != nil {
		res.Internal = err
		return res
	}
	ix, err := newIndex(spec)
	if err != nil {
		res.Internal = err
		return res
	}
	r := &simRun{spec: spec, ix: ix, h: sha256.New(), keep: opts.KeepLog,
		parkCh: make(chan parkMsg), exitCh: make(chan parkMsg, len(spec.Clients)+1)}
	r.mte, r.srv = newCache(spec.MaxAgeNs)
	readPool := readPoolOf(spec)
	r.logf("run maxAge=%d clients=%d", spec.MaxAgeNs, len(spec.Clients))

	monitorAdd(r)
	defer monitorRemove(r)

	// start clients one by one; each parks immediately at "ready"
	for id, ops := range spec.Clients {
		c := &client{id: id, ops: ops, run: r, resume: make(chan struct{}), cur: -1}
		r.clients = append(r.clients, c)
		if len(ops) == 0 {
			c.done = true
			continue
		}
		r.started++
		c.started = true
		c.state = stReleased
		pausePoint()
		go c.main()
		if _, _, st := r.recv(0, false, 0); st != recvMsg {
			res.Internal = fmt.Errorf("watchdog: client %d did not reach its start point", id)
			return res
		}
		c.state = stParked
	}

	finish := func() {
		// Let every goroutine exit, one at a time: a parked client runs its deferred Unlock calls and
		// nothing else; a client that was asleep on a lock wakes up when the holder has exited, runs
		// to its next yield point and exits there (park). Clients that stay asleep for good (the code
		// under test dead-locked) are left behind.
		r.aborted.Store(true)
		ok := true
		// pump receives until cond holds; false = watchdog
		pump := func(cond func() bool) bool {
			cont := false
			for !cond() {
				probe := time.Duration(0)
				if r.count(stReleased) > 0 {
					probe = BlockedAfter
				}
				m, fromExit, st := r.recv(1, cont, probe)
				switch st {
				case recvWatchdog:
					return false
				case recvProbe:
					cont = true
					if r.peek() {
						if r.classify(false) != nil {
							return false
						}
					}
					continue
				}
				cont = false
				if m.c == nil {
					continue
				}
				if fromExit {
					m.c.exited = true
				} else if m.c.state != stParked {
					m.c.state = stParked // was still on its way when the run was aborted
				}
			}
			return true
		}
		settled := func() bool { return r.count(stReleased) == 0 }
		for again := true; again && ok; {
			again = false
			for _, c := range r.clients {
				if !c.started || c.exited || c.unparked || c.state != stParked {
					continue
				}
				again = true
				c.unparked = true
				pausePoint()
				close(c.resume)
				if ok = pump(func() bool { return c.exited }); !ok {
					break
				}
				for ok && r.count(stBlocked) > 0 {
					r.peek()
					if settled() {
						break
					}
					ok = pump(settled)
				}
				if !ok {
					break
				}
			}
		}
		for _, c := range r.clients {
			if !c.unparked {
				c.unparked = true
				close(c.resume)
			}
		}
		if !ok && res.Internal == nil && res.Violation == nil {
			res.Internal = fmt.Errorf("watchdog: client goroutines did not exit")
		}
		res.Schedule = append([]int(nil), res.Schedule...)
		res.Stats = r.stats
		copy(res.LogHash[:], r.h.Sum(nil))
		res.Log = r.log
		res.SchedHash = schedHash(spec, res.Schedule, res.BlockedAt)
	}
	defer finish()

	hist := make([]HistOp, 0, spec.NumOps())

	// arrived processes the stashed park message of client c. stop = the run ends here.
	arrived := func(c *client) (stop bool) {
		m := c.stash
		c.stashed = false
		r.seq++
		switch m.kind {
		case parkYield:
			r.stats.Yields++
			b := strconv.AppendInt(r.lineBuf[:0], r.seq, 10)
			b = append(b, " c"...)
			b = strconv.AppendInt(b, int64(c.id), 10)
			b = append(b, " yield "...)
			b = append(b, m.point...)
			r.lineBuf = b
			r.logLine(b)
			if strings.HasSuffix(m.point, ".beforeLock") {
				c.atLock = true
			}
		case parkOpEnd, parkExit:
			op := c.ops[c.cur]
			r.stats.Ops++
			r.logf("%d c%d return op%d %s", r.seq, c.id, c.cur, m.out.String())
			hist = append(hist, HistOp{Client: c.id, OpIdx: c.cur, Call: c.callSeq, Return: r.seq, Op: op.String(), Out: m.out, op: op})
			c.cur = -1
			c.pastLock = false
			c.atLock = false
			if m.kind == parkExit {
				c.done = true
			}
			if m.out.Panic != "" {
				res.Violation = &Violation{Kind: KindPanic, Detail: fmt.Sprintf("client %d %s panicked: %s", c.id, op.String(), m.out.Panic)}
			}
			if op.Kind == OpUpdate && op.ViaServer {
				r.stats.ServerUpdates++
				if m.out.Rejected {
					r.stats.ServerRejected++
				}
				if m.out.Rejected != expectedRejection(op) {
					r.stats.ValidationOdd++
				}
			}
		default:
			res.Internal = fmt.Errorf("unexpected park kind %d", m.kind)
			return true
		}
		if v := r.observe(); v != nil && !disabledOracles["monotonic"] && (res.Violation == nil || res.Violation.Kind == KindOverlap) {
			res.Violation = v
		}
		if m.kind == parkOpEnd || m.kind == parkExit {
			if h := hist[len(hist)-1]; h.op.Kind == OpRead && res.Violation == nil {
				if v := r.checkRead(h.op, h.Out); v != nil && !disabledOracles["median"] {
					res.Violation = v
				}
			}
		}
		if res.Violation != nil && res.Violation.Kind != KindOverlap {
			res.History = hist
			return true
		}
		return false
	}

	exp, _ := ch.(blockExpecter)
	last := -1
	runnable := make([]int, 0, len(r.clients))
	for {
		runnable = runnable[:0]
		allDone := true
		asleep := 0
		for _, c := range r.clients {
			if c.done {
				continue
			}
			allDone = false
			if c.state == stBlocked {
				asleep++
				continue
			}
			if c.atLock {
				if !lockFree(r.mte, c.ops[c.cur].Kind == OpRead) {
					if !c.counted {
						c.counted = true
						r.stats.LockContention++
						r.logf("%d c%d blocked-on-lock", r.seq, c.id)
					}
					continue
				}
			}
			runnable = append(runnable, c.id)
		}
		if allDone {
			break
		}
		if len(runnable) == 0 {
			if asleep == 0 {
				var holders []string
				for _, c := range r.clients {
					if !c.done && c.pastLock {
						holders = append(holders, fmt.Sprintf("c%d", c.id))
					}
				}
				res.Violation = &Violation{Kind: KindDeadlock, Detail: fmt.Sprintf(
					"every unfinished client is waiting for the cache lock, which is held although no operation is inside a critical section (in-flight past Lock: %v)", holders)}
				return res
			}
			// Nobody can be released: every unfinished client is asleep inside the code under test or
			// waits at its Lock point for a lock that a sleeper holds. This verdict is final, so the
			// sleepers are looked at again, twice, before it is given.
			woke := false
			for k := 0; k < 2 && !woke; k++ {
				time.Sleep(BlockedAfter)
				if err := r.classify(true); err != nil {
					res.Internal = err
					return res
				}
				woke = r.count(stReleased) > 0 || r.count(stBlocked) != asleep
			}
			if woke {
				if err := r.await(false); err != nil {
					res.Internal = err
					return res
				}
				stop := false
				for _, x := range r.clients {
					if x.stashed && !stop {
						r.stats.HiddenLockWakes++
						r.seq++
						r.logf("%d c%d got the lock it was asleep on and went on", r.seq, x.id)
						stop = arrived(x)
					}
				}
				if stop {
					return res
				}
				continue
			}
			var who []string
			locksOnly := true
			for _, c := range r.clients {
				switch {
				case c.done:
				case c.state == stBlocked:
					who = append(who, fmt.Sprintf("client %d (%s) asleep in %s [%s]", c.id, c.ops[c.cur].String(), c.gi.where, c.gi.state))
					if c.gi.wait != gLockWait {
						locksOnly = false
					}
				default:
					who = append(who, fmt.Sprintf("client %d (%s) at its Lock point, lock not free", c.id, c.ops[c.cur].String()))
				}
			}
			if locksOnly {
				// sync.Mutex / RWMutex / Cond waits can only be ended by another goroutine, and no simulated
				// goroutine can run: the code under test has dead-locked (taken from goroutine states, not from a time-out)
				res.Violation = &Violation{Kind: KindDeadlock, Detail: "no client can make progress: " + strings.Join(who, "; ")}
				res.History = hist
				return res
			}
			// channel / select waits might be ended from outside the simulation: give them the watchdog time
			m, _, st := r.recv(0, false, 0)
			if st != recvMsg || m.c == nil || m.c.state != stBlocked {
				res.Internal = fmt.Errorf("watchdog: simulator dead-locked, nothing runnable and nothing asleep that can make progress: %s", strings.Join(who, "; "))
				return res
			}
			m.c.state, m.c.stash, m.c.stashed = stParked, m, true
			r.peek()
			if err := r.await(false); err != nil {
				res.Internal = err
				return res
			}
			stop := false
			for _, x := range r.clients {
				if x.stashed && !stop {
					r.stats.HiddenLockWakes++
					r.seq++
					r.logf("%d c%d woke up and went on", r.seq, x.id)
					stop = arrived(x)
				}
			}
			if stop {
				return res
			}
			continue
		}
		pickID := ch.Next(runnable, last)
		expectBlocked := exp != nil && exp.ExpectBlocked()
		last = pickID
		c := r.clients[pickID]
		res.Schedule = append(res.Schedule, pickID)
		if c.cur < 0 {
			res.SchedOp = append(res.SchedOp, c.next)
		} else {
			res.SchedOp = append(res.SchedOp, c.cur)
		}
		r.stats.Steps++
		r.seq++

		if c.cur < 0 {
			// invocation of the next op
			c.cur = c.next
			c.next++
			c.callSeq = r.seq
			op := c.ops[c.cur]
			for _, d := range r.clients {
				if d != c && d.cur >= 0 {
					r.stats.ConcurrentOps = true
					r.countSnapshotWindow(op, d.ops[d.cur])
				}
			}
			r.logf("%d c%d invoke op%d %s", r.seq, c.id, c.cur, op.String())
			if op.Kind == OpUpdate {
				r.snapBuf = snapshot(r.mte, r.snapBuf)
				r.classifyUpdate(c, op, readPool)
				if distinctMarkets(op) >= 2 {
					r.stats.MultiMarketUpds++
				}
			} else if len(op.Params) >= 2 {
				r.stats.MultiMarketReads++
			}
		} else if c.atLock {
			// passing the Lock point: the probe said the lock is free (or absent)
			for _, d := range r.clients {
				if d != c && !d.done && d.pastLock {
					r.stats.OverlapEvents++
					w := c.ops[c.cur].Kind == OpUpdate || d.ops[d.cur].Kind == OpUpdate
					r.logf("%d c%d enters critical section while c%d is inside (writer involved: %v)", r.seq, c.id, d.id, w)
					if w {
						r.stats.OverlapWithWrite++
						if res.Violation == nil && !disabledOracles["overlap"] {
							res.Violation = &Violation{Kind: KindOverlap, Detail: fmt.Sprintf(
								"client %d (%s) passed its Lock point while client %d (%s) was still inside its critical section: the lock does not exclude them (event %d)",
								c.id, c.ops[c.cur].String(), d.id, d.ops[d.cur].String(), r.seq)}
						}
					}
				}
			}
			c.pastLock = true
			c.atLock = false
			c.counted = false
		}
		// an overlap involving a writer is reported only if nothing more specific shows up
		// later in the run: keep going so that the history also shows the consequence.

		c.state = stReleased
		pausePoint()
		c.resume <- struct{}{}
		if err := r.await(expectBlocked); err != nil {
			res.Internal = err
			return res
		}
		// The events of this step, in a fixed order: first the released client, then, by client id,
		// every client that had been asleep on a lock and has now reached a yield point or its end.
		if c.state == stBlocked {
			res.BlockedAt = append(res.BlockedAt, true)
			r.stats.HiddenLockSleeps++
			r.seq++
			r.logf("%d c%d asleep on a real lock in %s [%s]: no yield point in front of this acquisition", r.seq, c.id, c.gi.where, c.gi.state)
			if debugSched {
				fmt.Fprintf(os.Stderr, "pricesim debug: c%d asleep in %s [%s] lock=%s; process dump:\n", c.id, c.gi.where, c.gi.state, c.gi.lock)
				for id, gi := range r.dump {
					fmt.Fprintf(os.Stderr, "   g%d wait=%d state=%q where=%s lock=%s\n", id, gi.wait, gi.state, gi.where, gi.lock)
				}
			}
			if v := r.observe(); v != nil && !disabledOracles["monotonic"] && (res.Violation == nil || res.Violation.Kind == KindOverlap) {
				res.Violation = v
				res.History = hist
				return res
			}
		} else {
			res.BlockedAt = append(res.BlockedAt, false)
			if arrived(c) {
				return res
			}
		}
		for _, x := range r.clients {
			if x.stashed {
				r.stats.HiddenLockWakes++
				r.seq++
				r.logf("%d c%d got the lock it was asleep on and went on", r.seq, x.id)
				if arrived(x) {
					return res
				}
			}
		}
	}
	res.History = hist

	// oracle (a): linearizability of the completed history
	if disabledOracles["linearizability"] {
		return res
	}
	switch CheckLinearizable(spec, ix, hist, PorcupineTimeout) {
	case porcupine.Ok:
		r.stats.PorcupineOK++
	case porcupine.Unknown:
		r.stats.PorcupineUnknown++
	case porcupine.Illegal:
		res.Violation = &Violation{Kind: KindLinearizability, Detail: linDetail(spec, hist)}
	}
	return res
}

func distinctMarkets(op Op) int {
	n := 0
	for i, mu := range op.Batch {
		dup := false
		for _, prev := range op.Batch[:i] {
			if prev.Market == mu.Market {
				dup = true
			}
		}
		if !dup && len(mu.Prices) > 0 {
			n++
		}
	}
	return n
}

// countSnapshotWindow counts a (read, update) pair that is in flight together where the update
// carries items for at least two of the markets the read requests: the situation in which a read
// that is not atomic over its markets can return a mix of two cache states.
func (r *simRun) countSnapshotWindow(a, b Op) {
	if a.Kind == b.Kind {
		return
	}
	rd, up := a, b
	if a.Kind == OpUpdate {
		rd, up = b, a
	}
	if len(rd.Params) < 2 {
		return
	}
	n := 0
	for i, mu := range up.Batch {
		if len(mu.Prices) == 0 {
			continue
		}
		dup := false
		for _, prev := range up.Batch[:i] {
			if prev.Market == mu.Market && len(prev.Prices) > 0 {
				dup = true
			}
		}
		if dup {
			continue
		}
		for _, p := range rd.Params {
			if p.Market == mu.Market {
				n++
				break
			}
		}
	}
	if n >= 2 {
		r.stats.SnapshotWindows++
	}
}

func linDetail(spec RunSpec, hist []HistOp) string {
	var sb strings.Builder
	fmt.Fprintf(&sb, "history of %d operations is not linearizable against the sequential model (maxAge=%dns):", len(hist), spec.MaxAgeNs)
	for _, h := range hist {
		fmt.Fprintf(&sb, "\n  [%d,%d] c%d %s -> %s", h.Call, h.Return, h.Client, h.Op, h.Out.String())
	}
	return sb.String()
}

// schedHash identifies a schedule: released-client sequence plus the op kinds of every client.
func schedHash(spec RunSpec, schedule []int, blocked []bool) uint64 {
	h := uint64(14695981039346656037)
	mix := func(b byte) {
		h ^= uint64(b)
		h *= 1099511628211
	}
	for _, c := range spec.Clients {
		for _, op := range c {
			if op.Kind == OpRead {
				mix('r')
			} else if op.ViaServer {
				mix('s')
			} else {
				mix('u')
			}
		}
		mix('|')
	}
	for i, id := range schedule {
		mix(byte(id))
		if i < len(blocked) && blocked[i] {
			mix(0xfe) // this release ended asleep on a real lock
		}
	}
	return h
}
