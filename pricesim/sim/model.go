package sim

import (
	"fmt"
	"math/big"
	"sort"
	"strings"
	"time"

	"github.com/anishathalye/porcupine"
)

// Sequential reference model, written from the property statement (not from the
// implementation):
//
//   state : (market, exchange) -> (price, updateTime)
//   update(batch): for every item in order: store iff no entry yet or item.time > stored.time.
//                  item.time == stored.time is GREY: both outcomes are accepted (model branches).
//                  A batch reported as rejected by the server validation changes nothing.
//   read(params, readTime): for every requested market: F = entries with time >= readTime - maxAge
//                  (an entry with time == readTime - maxAge exactly is GREY: may or may not count);
//                  served = median(F) if |F| >= MinExchanges and |F| > 0, otherwise absent.
//   median: sort; odd -> middle; even -> (a+b)/2 rounded half away from zero, computed in big integers.

const maxCells = 12 // 3 markets x 4 exchanges

type cell struct {
	set   bool
	price uint64
	t     int64
}

type mstate [maxCells]cell

// index maps market / exchange ids of a run to cell indexes.
type index struct {
	markets   []uint32
	exchanges []string
}

func newIndex(spec RunSpec) (*index, error) {
	ix := &index{markets: spec.Markets(), exchanges: spec.Exchanges()}
	if len(ix.markets) > 3 || len(ix.exchanges) > 4 {
		return nil, fmt.Errorf("spec exceeds 3 markets x 4 exchanges (%d x %d)", len(ix.markets), len(ix.exchanges))
	}
	return ix, nil
}

func (ix *index) mi(m uint32) int {
	for i, v := range ix.markets {
		if v == m {
			return i
		}
	}
	return -1
}

func (ix *index) ei(e string) int {
	for i, v := range ix.exchanges {
		if v == e {
			return i
		}
	}
	return -1
}

func (ix *index) cellOf(m uint32, e string) int { return ix.mi(m)*4 + ix.ei(e) }

// model inputs / outputs

type mUpdateItem struct {
	cell  int
	price uint64
	t     int64
}

type mInput struct {
	isRead   bool
	items    []mUpdateItem // update
	params   []mParam      // read
	readT    int64
	maxAge   int64
	describe string
}

type mParam struct {
	mi  int
	min uint32
}

type servedPrice struct {
	Market uint32 `json:"market"`
	Price  uint64 `json:"price,string"`
}

// OpOutput is what an operation returned.
type OpOutput struct {
	Rejected bool          `json:"rejected,omitempty"` // server validation returned an error
	Served   []servedPrice `json:"served,omitempty"`   // read result sorted by market id
	Panic    string        `json:"panic,omitempty"`
}

func (o OpOutput) String() string {
	if o.Panic != "" {
		return "PANIC(" + o.Panic + ")"
	}
	if o.Rejected {
		return "rejected"
	}
	var sb strings.Builder
	sb.WriteString("{")
	for i, s := range o.Served {
		if i > 0 {
			sb.WriteString(" ")
		}
		fmt.Fprintf(&sb, "m%d=%d", s.Market, s.Price)
	}
	sb.WriteString("}")
	return sb.String()
}

type mOutput struct {
	rejected bool
	served   map[int]uint64 // market index -> price
	extra    bool           // result contained a market that was not requested
}

// RefMedian is the big-integer reference median (round half away from zero).
func RefMedian(vals []uint64) (uint64, bool) {
	n := len(vals)
	if n == 0 {
		return 0, false
	}
	s := make([]uint64, n)
	copy(s, vals)
	sort.Slice(s, func(i, j int) bool { return s[i] < s[j] })
	if n%2 == 1 {
		return s[n/2], true
	}
	a := new(big.Int).SetUint64(s[n/2-1])
	b := new(big.Int).SetUint64(s[n/2])
	sum := new(big.Int).Add(a, b)
	// non-negative: round half away from zero == round half up == floor((a+b+1)/2)
	sum.Add(sum, big.NewInt(1))
	sum.Rsh(sum, 1)
	return sum.Uint64(), true
}

func stepUpdate(st mstate, in *mInput, out *mOutput) []interface{} {
	if out.rejected {
		return []interface{}{st}
	}
	states := []mstate{st}
	for _, it := range in.items {
		var next []mstate
		for _, s := range states {
			cur := s[it.cell]
			switch {
			case !cur.set || it.t > cur.t:
				s[it.cell] = cell{set: true, price: it.price, t: it.t}
				next = appendUnique(next, s)
			case it.t == cur.t:
				// GREY: equal-time update may or may not overwrite.
				next = appendUnique(next, s)
				s2 := s
				s2[it.cell] = cell{set: true, price: it.price, t: it.t}
				next = appendUnique(next, s2)
			default:
				next = appendUnique(next, s)
			}
		}
		states = next
	}
	res := make([]interface{}, len(states))
	for i, s := range states {
		res[i] = s
	}
	return res
}

func appendUnique(l []mstate, s mstate) []mstate {
	for _, x := range l {
		if x == s {
			return l
		}
	}
	return append(l, s)
}

// acceptableRead reports whether (present, price) is an allowed result for one market.
func acceptableRead(st *mstate, mi int, min uint32, cutoff int64, present bool, price uint64) bool {
	var definite, grey []uint64
	for e := 0; e < 4; e++ {
		c := st[mi*4+e]
		if !c.set {
			continue
		}
		switch {
		case c.t > cutoff:
			definite = append(definite, c.price)
		case c.t == cutoff:
			grey = append(grey, c.price)
		}
	}
	for mask := 0; mask < 1<<len(grey); mask++ {
		vals := append([]uint64(nil), definite...)
		for g := range grey {
			if mask&(1<<g) != 0 {
				vals = append(vals, grey[g])
			}
		}
		med, ok := RefMedian(vals)
		wantPresent := ok && uint32(len(vals)) >= min
		if wantPresent == present && (!present || med == price) {
			return true
		}
	}
	return false
}

func stepRead(st mstate, in *mInput, out *mOutput) []interface{} {
	if out.rejected || out.extra {
		return nil
	}
	cutoff := in.readT - in.maxAge
	for _, p := range in.params {
		price, present := out.served[p.mi]
		if !acceptableRead(&st, p.mi, p.min, cutoff, present, price) {
			return nil
		}
	}
	return []interface{}{st}
}

func describeState(st mstate, ix *index) string {
	var sb strings.Builder
	sb.WriteString("{")
	first := true
	for i, c := range st {
		if !c.set {
			continue
		}
		if !first {
			sb.WriteString(" ")
		}
		first = false
		m, e := i/4, i%4
		ms, es := fmt.Sprint(m), fmt.Sprint(e)
		if ix != nil && m < len(ix.markets) && e < len(ix.exchanges) {
			ms, es = fmt.Sprint(ix.markets[m]), ix.exchanges[e]
		}
		fmt.Fprintf(&sb, "m%s/%s=%d@%d", ms, es, c.price, c.t)
	}
	sb.WriteString("}")
	return sb.String()
}

func newModel() porcupine.Model {
	nm := porcupine.NondeterministicModel{
		Init: func() []interface{} { return []interface{}{mstate{}} },
		Step: func(state, input, output interface{}) []interface{} {
			st := state.(mstate)
			in := input.(*mInput)
			out := output.(*mOutput)
			if in.isRead {
				return stepRead(st, in, out)
			}
			return stepUpdate(st, in, out)
		},
		Equal: func(a, b interface{}) bool { return a.(mstate) == b.(mstate) },
	}
	return nm.ToModel()
}

// HistOp is one completed operation of a history.
type HistOp struct {
	Client int      `json:"client"`
	OpIdx  int      `json:"op"`
	Call   int64    `json:"call_seq"`
	Return int64    `json:"return_seq"`
	Op     string   `json:"op_text"`
	Out    OpOutput `json:"out"`
	op     Op
}

func toModelOps(spec RunSpec, ix *index, hist []HistOp) []porcupine.Operation {
	ops := make([]porcupine.Operation, 0, len(hist))
	for _, h := range hist {
		in := &mInput{maxAge: spec.MaxAgeNs, describe: h.Op}
		out := &mOutput{rejected: h.Out.Rejected}
		if h.op.Kind == OpRead {
			in.isRead = true
			in.readT = h.op.ReadTimeNs
			for _, p := range h.op.Params {
				in.params = append(in.params, mParam{mi: ix.mi(p.Market), min: p.Min})
			}
			out.served = map[int]uint64{}
			for _, s := range h.Out.Served {
				mi := ix.mi(s.Market)
				requested := false
				for _, p := range in.params {
					if p.mi == mi {
						requested = true
					}
				}
				if mi < 0 || !requested {
					out.extra = true
					continue
				}
				out.served[mi] = s.Price
			}
		} else {
			for _, mu := range h.op.Batch {
				for _, p := range mu.Prices {
					if p.NilTime {
						continue // only reachable when the batch was rejected
					}
					in.items = append(in.items, mUpdateItem{cell: ix.cellOf(mu.Market, p.Exchange), price: p.Price, t: p.TimeNs})
				}
			}
		}
		ops = append(ops, porcupine.Operation{ClientId: h.Client, Input: in, Call: h.Call, Output: out, Return: h.Return})
	}
	return ops
}

// CheckLinearizable runs porcupine on one history.
func CheckLinearizable(spec RunSpec, ix *index, hist []HistOp, timeout time.Duration) porcupine.CheckResult {
	return porcupine.CheckOperationsTimeout(newModel(), toModelOps(spec, ix, hist), timeout)
}
