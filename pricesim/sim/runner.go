package sim

import (
	"bufio"
	"bytes"
	"crypto/sha256"
	"encoding/hex"
	"encoding/json"
	"fmt"
	"hash"
	"os"
	"os/exec"
	"path/filepath"
	"runtime"
	"strconv"
	"strings"
	"sync"
	"sync/atomic"
	"time"
)

// RunConfig is the configuration of `pricesim run`.
type RunConfig struct {
	Tier     string
	Seed     uint64
	Evidence string
	Replays  string
	Budget   time.Duration
	Workers  int
	MaxRuns  int64 // >0: run exactly this many histories (ignores the budget); used by the determinism test
	From     int64 // first run index (debugging aid; default 0)
	LogHash  bool
	RaceBin  string // path of the -race stress binary ("" = next to this executable)
	NoRace   bool
}

type sampleHistory struct {
	Run      int64    `json:"run"`
	Swarm    Swarm    `json:"swarm"`
	Clients  [][]Op   `json:"clients"`
	Schedule string   `json:"schedule_released_client_ids"`
	Blocked  []int    `json:"blocked_steps,omitempty"` // steps at which the released client was found asleep on a lock taken without a yield point
	History  []HistOp `json:"history"`
	Result   string   `json:"result"`
}

type foundViolation struct {
	run      int64
	spec     RunSpec
	schedule []int
	blocked  []bool
	v        Violation
}

type aggregate struct {
	mu        sync.Mutex
	stats     RunStats
	runs      int64
	overlapNT int64 // histories with >=2 clients overlapping
	distinct  map[uint64]struct{}
	pending   map[int64][32]byte // looked up by key only
	nextIdx   int64
	hasher    hash.Hash
	samples   []sampleHistory
	found     map[int64]*foundViolation // looked up by key only
	internal  error
	swarmSeen [7]int64 // histories per client count (index = clients)
	from      int64
}

func (a *aggregate) add(idx int64, spec RunSpec, sw Swarm, res *ExecResult) {
	a.mu.Lock()
	defer a.mu.Unlock()
	a.runs++
	s := res.Stats
	a.stats.Ops += s.Ops
	a.stats.Yields += s.Yields
	a.stats.Steps += s.Steps
	a.stats.LockContention += s.LockContention
	a.stats.OverlapEvents += s.OverlapEvents
	a.stats.OverlapWithWrite += s.OverlapWithWrite
	a.stats.PorcupineOK += s.PorcupineOK
	a.stats.PorcupineUnknown += s.PorcupineUnknown
	a.stats.GreyEqualUpdates += s.GreyEqualUpdates
	a.stats.GreyCutoffReads += s.GreyCutoffReads
	a.stats.StaleUpdates += s.StaleUpdates
	a.stats.EqualUpdates += s.EqualUpdates
	a.stats.OutOfOrder += s.OutOfOrder
	a.stats.BoundaryUpdates += s.BoundaryUpdates
	a.stats.BoundaryReads += s.BoundaryReads
	a.stats.OverflowReads += s.OverflowReads
	a.stats.MedianChecks += s.MedianChecks
	a.stats.ServerUpdates += s.ServerUpdates
	a.stats.ServerRejected += s.ServerRejected
	a.stats.ValidationOdd += s.ValidationOdd
	a.stats.ServedPrices += s.ServedPrices
	a.stats.AbsentPrices += s.AbsentPrices
	a.stats.HiddenLockSleeps += s.HiddenLockSleeps
	a.stats.HiddenLockWakes += s.HiddenLockWakes
	a.stats.MultiMarketReads += s.MultiMarketReads
	a.stats.MultiMarketUpds += s.MultiMarketUpds
	a.stats.SnapshotWindows += s.SnapshotWindows
	if sw.Clients >= 0 && sw.Clients < len(a.swarmSeen) {
		a.swarmSeen[sw.Clients]++
	}
	if s.ConcurrentOps {
		a.overlapNT++
		a.distinct[res.SchedHash] = struct{}{}
	}
	if res.Internal != nil && a.internal == nil {
		a.internal = fmt.Errorf("run %d: %w", idx, res.Internal)
	}
	if res.Violation != nil {
		a.found[idx] = &foundViolation{run: idx, spec: spec, schedule: res.Schedule, blocked: res.BlockedAt, v: *res.Violation}
	}
	if idx < a.from+3 {
		result := "ok"
		if res.Violation != nil {
			result = "violation:" + res.Violation.Kind
		} else if res.Internal != nil {
			result = "internal-error"
		} else if s.PorcupineUnknown > 0 {
			result = "porcupine-unknown"
		}
		a.samples = append(a.samples, sampleHistory{Run: idx, Swarm: sw, Clients: spec.Clients,
			Schedule: intsToString(res.Schedule), Blocked: blockedSteps(res.BlockedAt), History: res.History, Result: result})
	}
	// in-order combination of the per-run event-log hashes
	a.pending[idx] = res.LogHash
	for {
		h, ok := a.pending[a.nextIdx]
		if !ok {
			break
		}
		a.hasher.Write(h[:])
		delete(a.pending, a.nextIdx)
		a.nextIdx++
	}
}

// blockedSteps lists the indexes of the scheduling steps at which the released client was found
// asleep on a real lock (replay file field blocked_steps).
func blockedSteps(flags []bool) []int {
	var out []int
	for i, b := range flags {
		if b {
			out = append(out, i)
		}
	}
	return out
}

func blockedFlags(steps []int, n int) []bool {
	if len(steps) == 0 {
		return nil
	}
	out := make([]bool, n)
	for _, s := range steps {
		if s >= 0 && s < n {
			out[s] = true
		}
	}
	return out
}

func intsToString(xs []int) string {
	var sb strings.Builder
	for i, x := range xs {
		if i > 0 {
			sb.WriteByte(',')
		}
		sb.WriteString(strconv.Itoa(x))
	}
	return sb.String()
}

type raceOutcome struct {
	ran     bool
	note    string
	runs    int64
	repeat  int
	races   int
	lastRun int64
	report  string
	wallS   float64
}

func defaultRaceBin() string {
	exe, err := os.Executable()
	if err != nil {
		return ""
	}
	return filepath.Join(filepath.Dir(exe), "pricesim-race")
}

// runRaceSubprocess runs the real-thread stress binary and interprets its outcome.
func runRaceSubprocess(bin string, args []string, stop <-chan struct{}) raceOutcome {
	out := raceOutcome{lastRun: -1}
	if _, err := os.Stat(bin); err != nil {
		out.note = "race stress binary not found at " + bin + " (build it with build.sh); sub-run skipped"
		return out
	}
	t0 := time.Now()
	cmd := exec.Command(bin, args...)
	procs := runtime.NumCPU() / 4
	if procs < 2 {
		procs = 2
	}
	cmd.Env = append(os.Environ(), "GORACE=halt_on_error=1 exitcode=66", "GOMAXPROCS="+strconv.Itoa(procs))
	var stderr bytes.Buffer
	cmd.Stderr = &stderr
	stdout, err := cmd.StdoutPipe()
	if err != nil {
		out.note = "cannot start race stress binary: " + err.Error()
		return out
	}
	if err := cmd.Start(); err != nil {
		out.note = "cannot start race stress binary: " + err.Error()
		return out
	}
	out.ran = true
	finished := make(chan struct{})
	var killed atomic.Bool
	go func() {
		select {
		case <-stop:
			killed.Store(true)
			_ = cmd.Process.Kill()
		case <-finished:
		}
	}()
	sc := bufio.NewScanner(stdout)
	for sc.Scan() {
		line := sc.Text()
		if strings.HasPrefix(line, "RUN ") {
			if v, err := strconv.ParseInt(line[4:], 10, 64); err == nil {
				out.lastRun = v
			}
		} else if strings.HasPrefix(line, "STRESS_DONE ") {
			for _, f := range strings.Fields(line)[1:] {
				kv := strings.SplitN(f, "=", 2)
				if len(kv) != 2 {
					continue
				}
				switch kv[0] {
				case "runs":
					out.runs, _ = strconv.ParseInt(kv[1], 10, 64)
				case "repeat":
					out.repeat, _ = strconv.Atoi(kv[1])
				}
			}
		}
	}
	werr := cmd.Wait()
	close(finished)
	out.wallS = time.Since(t0).Seconds()
	code := 0
	if werr != nil {
		code = -1
		if ee, ok := werr.(*exec.ExitError); ok {
			code = ee.ExitCode()
		}
	}
	es := stderr.String()
	switch {
	case code == 66 || strings.Contains(es, "WARNING: DATA RACE") || strings.Contains(es, "concurrent map"):
		out.races = 1
		lines := strings.Split(es, "\n")
		if len(lines) > 60 {
			lines = lines[:60]
		}
		out.report = strings.Join(lines, "\n")
	case killed.Load():
		out.note = "stopped early because the simulation had already found a violation"
	case code != 0:
		out.ran = false
		out.note = fmt.Sprintf("race stress binary failed with exit code %d: %s", code, firstLines(es, 5))
	}
	if out.runs == 0 && out.lastRun >= 0 {
		out.runs = out.lastRun + 1
	}
	return out
}

func firstLines(s string, n int) string {
	l := strings.Split(strings.TrimSpace(s), "\n")
	if len(l) > n {
		l = l[:n]
	}
	return strings.Join(l, " | ")
}

// RunTier is `pricesim run`. It returns the process exit code.
func RunTier(cfg RunConfig) int {
	t0 := time.Now()
	if !HookInstalled() {
		fmt.Fprintln(os.Stderr, "pricesim: this binary was built without -tags verif; use build.sh")
		return 2
	}
	if err := LayoutError(); err != nil {
		fmt.Fprintln(os.Stderr, "pricesim: cannot observe the cache:", err)
		return 2
	}
	if cfg.Workers <= 0 {
		cfg.Workers = runtime.NumCPU()
	}
	if cfg.Budget <= 0 {
		if cfg.Tier == "thorough" {
			cfg.Budget = 1500 * time.Second
		} else {
			cfg.Budget = 60 * time.Second
		}
	}
	if cfg.Replays != "" {
		if err := os.MkdirAll(cfg.Replays, 0o755); err != nil {
			fmt.Fprintln(os.Stderr, "pricesim:", err)
			return 2
		}
	}

	// oracle (d): real-thread race stress in a separate -race binary, concurrently
	raceCh := make(chan raceOutcome, 1)
	stopRace := make(chan struct{})
	raceBin := cfg.RaceBin
	if raceBin == "" {
		raceBin = defaultRaceBin()
	}
	if cfg.NoRace {
		raceCh <- raceOutcome{note: "disabled by --no-race", lastRun: -1}
	} else {
		rb := cfg.Budget * 9 / 10
		args := []string{"stress", "--seed", strconv.FormatUint(cfg.Seed, 10), "--budget", strconv.FormatFloat(rb.Seconds(), 'f', 1, 64)}
		if cfg.MaxRuns > 0 {
			args = append(args, "--runs", strconv.FormatInt(cfg.MaxRuns, 10))
		}
		go func() { raceCh <- runRaceSubprocess(raceBin, args, stopRace) }()
	}

	agg := &aggregate{distinct: map[uint64]struct{}{}, pending: map[int64][32]byte{}, hasher: sha256.New(), found: map[int64]*foundViolation{}, from: cfg.From}
	var ctr atomic.Int64
	ctr.Store(cfg.From)
	agg.nextIdx = cfg.From
	var stopIdx atomic.Int64
	stopIdx.Store(1 << 62)
	var internalStop atomic.Bool
	deadline := t0.Add(cfg.Budget)
	var wg sync.WaitGroup
	for w := 0; w < cfg.Workers; w++ {
		wg.Add(1)
		go func() {
			defer wg.Done()
			for {
				if internalStop.Load() {
					return
				}
				if cfg.MaxRuns <= 0 && time.Now().After(deadline) {
					return
				}
				idx := ctr.Add(1) - 1
				if (cfg.MaxRuns > 0 && idx >= cfg.From+cfg.MaxRuns) || idx > stopIdx.Load() {
					return
				}
				rng := NewRNG(cfg.Seed, idx)
				spec, sw := Generate(rng)
				res := Execute(spec, &rngChooser{r: rng, stickiness: sw.Stickiness}, ExecOpts{})
				agg.add(idx, spec, sw, res)
				if res.Internal != nil {
					internalStop.Store(true)
				}
				if res.Violation != nil {
					for {
						cur := stopIdx.Load()
						if idx >= cur || stopIdx.CompareAndSwap(cur, idx) {
							break
						}
					}
				}
			}
		}()
	}
	wg.Wait()
	simWall := time.Since(t0).Seconds()

	// the lowest-index violation is the one reported (independent of worker timing)
	var first *foundViolation
	for i := cfg.From; i < ctr.Load(); i++ {
		if f, ok := agg.found[i]; ok {
			first = f
			break
		}
	}

	if first != nil {
		close(stopRace)
	}
	violations := 0
	var vioLines []string
	var vioDetails []map[string]interface{}
	exit := 0
	if first != nil {
		path, kind, detail, err := reportSimViolation(cfg, first)
		if err != nil {
			fmt.Fprintln(os.Stderr, "pricesim: internal error while confirming a violation:", err)
			if agg.internal == nil {
				agg.internal = err
			}
		} else {
			violations++
			vioLines = append(vioLines, fmt.Sprintf("VIOLATION property=%s replay=%s", PropertyID, path))
			vioDetails = append(vioDetails, map[string]interface{}{"run": first.run, "kind": kind, "replay": path, "detail": detail, "mode": "sim"})
		}
	}

	race := <-raceCh
	if race.races > 0 {
		spec, _ := Generate(NewRNG(cfg.Seed^StressSeedSalt, race.lastRun))
		rp := &Replay{Property: PropertyID, Kind: KindDataRace, Mode: "race", Seed: cfg.Seed, Run: race.lastRun, Spec: spec,
			Detail: race.report,
			Note:   "real-thread stress under the Go race detector, NOT deterministic simulation: replay re-runs the workload repeatedly with free-running goroutines"}
		path := filepath.Join(cfg.Replays, fmt.Sprintf("%s-%d-race%d.json", PropertyID, cfg.Seed, race.lastRun))
		if err := WriteReplay(path, rp); err != nil {
			fmt.Fprintln(os.Stderr, "pricesim:", err)
			if agg.internal == nil {
				agg.internal = err
			}
		} else {
			violations++
			vioLines = append(vioLines, fmt.Sprintf("VIOLATION property=%s replay=%s", PropertyID, path))
			vioDetails = append(vioDetails, map[string]interface{}{"run": race.lastRun, "kind": KindDataRace, "replay": path, "detail": race.report, "mode": "race (real-thread stress, not simulation)"})
		}
	}

	wall := time.Since(t0).Seconds()
	if err := writeEvidence(cfg, agg, race, violations, vioDetails, wall, simWall); err != nil {
		fmt.Fprintln(os.Stderr, "pricesim: cannot write evidence:", err)
		if agg.internal == nil {
			agg.internal = err
		}
	}

	fmt.Printf("pricesim %s seed=%d histories=%d ops=%d yields=%d distinct_overlapping_schedules=%d porcupine_ok=%d porcupine_unknown=%d lock_contention=%d cs_interleavings=%d unannounced_lock_sleeps=%d race_subrun(ran=%v runs=%d races=%d) wall=%.1fs\n",
		cfg.Tier, cfg.Seed, agg.runs, agg.stats.Ops, agg.stats.Yields, len(agg.distinct), agg.stats.PorcupineOK, agg.stats.PorcupineUnknown,
		agg.stats.LockContention, agg.stats.OverlapEvents, agg.stats.HiddenLockSleeps, race.ran, race.runs, race.races, wall)
	if cfg.LogHash {
		fmt.Printf("LOGHASH %s runs=%d\n", hex.EncodeToString(agg.hasher.Sum(nil)), agg.nextIdx)
	}
	if violations > 0 {
		for i, l := range vioLines {
			fmt.Println(l)
			fmt.Printf("kind=%v run=%v\n%v\n", vioDetails[i]["kind"], vioDetails[i]["run"], vioDetails[i]["detail"])
		}
		exit = 1
	} else if agg.internal != nil {
		fmt.Fprintln(os.Stderr, "pricesim: internal error:", agg.internal)
		exit = 2
	} else if agg.runs == 0 {
		fmt.Fprintln(os.Stderr, "pricesim: no history was executed")
		exit = 2
	}
	return exit
}

// reportSimViolation minimises, confirms by an in-process PRNG-free replay and writes the file.
func reportSimViolation(cfg RunConfig, f *foundViolation) (path, kind, detail string, err error) {
	spec, sched, blk, attempts := Minimise(f.spec, f.schedule, f.blocked, f.v.Kind, 45*time.Second)
	note := fmt.Sprintf("minimised from %d ops / %d scheduling steps in %d attempts", f.spec.NumOps(), len(f.schedule), attempts)
	confirm, n, ok := ExecuteUntil(spec, sched, blk, f.v.Kind, replayAttempts, ExecOpts{})
	if !ok {
		// fall back to the unminimised original
		spec, sched, blk = f.spec, f.schedule, f.blocked
		note = "minimised form did not confirm; original history kept"
		confirm, n, ok = ExecuteUntil(spec, sched, blk, f.v.Kind, replayAttempts, ExecOpts{})
		if !ok {
			confirm, n, ok = ExecuteUntil(spec, sched, blk, "", replayAttempts, ExecOpts{})
		}
		if !ok {
			if confirm != nil && confirm.Internal != nil {
				return "", "", "", fmt.Errorf("run %d: PRNG-free replay of violation %q ended in simulator trouble: %w", f.run, f.v.Kind, confirm.Internal)
			}
			return "", "", "", fmt.Errorf("run %d: violation %q did not reproduce under PRNG-free replay (original detail: %s)", f.run, f.v.Kind, f.v.Detail)
		}
	}
	if n > 1 {
		note += fmt.Sprintf("; reproduction needed %d executions of the same schedule (the code under test iterates a Go map in randomised order while another goroutine is inside the critical section)", n)
	}
	rp := &Replay{Property: PropertyID, Kind: confirm.Violation.Kind, Mode: "sim", Seed: cfg.Seed, Run: f.run,
		Spec: spec, Schedule: confirm.Schedule, BlockedSteps: blockedSteps(confirm.BlockedAt), Detail: confirm.Violation.Detail, Note: note}
	path = filepath.Join(cfg.Replays, fmt.Sprintf("%s-%d-%d.json", PropertyID, cfg.Seed, f.run))
	if err := WriteReplay(path, rp); err != nil {
		return "", "", "", err
	}
	return path, confirm.Violation.Kind, confirm.Violation.Detail, nil
}

// replayAttempts bounds the re-executions of one schedule (see ExecuteUntil).
const replayAttempts = 40

// ReplayFile is `pricesim replay <file>`. It returns the process exit code.
func ReplayFile(path string, raceBin string, repeat int) int {
	rp, err := ReadReplay(path)
	if err != nil {
		fmt.Fprintln(os.Stderr, "pricesim:", err)
		return 2
	}
	if rp.Mode == "race" {
		if raceBin == "" {
			raceBin = defaultRaceBin()
		}
		out := runRaceSubprocess(raceBin, []string{"stressfile", path, "--repeat", strconv.Itoa(repeat)}, nil)
		if !out.ran {
			fmt.Fprintln(os.Stderr, "pricesim:", out.note)
			return 2
		}
		if out.races > 0 {
			fmt.Printf("VIOLATION property=%s replay=%s\nkind=%s run=%d\n%s\n", PropertyID, path, KindDataRace, rp.Run, out.report)
			return 1
		}
		fmt.Printf("no race reported in %d free-running repetitions (real-thread stress is not deterministic)\n", repeat)
		return 0
	}
	if !HookInstalled() {
		fmt.Fprintln(os.Stderr, "pricesim: this binary was built without -tags verif; use build.sh")
		return 2
	}
	blk := blockedFlags(rp.BlockedSteps, len(rp.Schedule))
	res, n, ok := ExecuteUntil(rp.Spec, rp.Schedule, blk, rp.Kind, replayAttempts, ExecOpts{KeepLog: true})
	if !ok && res.Internal == nil {
		// the recorded kind did not show up: is there any violation at all?
		res, n, _ = ExecuteUntil(rp.Spec, rp.Schedule, blk, "", replayAttempts, ExecOpts{KeepLog: true})
	}
	if res.Internal != nil {
		fmt.Fprintln(os.Stderr, "pricesim: internal error:", res.Internal)
		return 2
	}
	if res.Violation == nil {
		fmt.Printf("replay of %s: no violation (recorded kind was %s); %d ops, %d scheduling steps\n", path, rp.Kind, res.Stats.Ops, len(res.Schedule))
		return 0
	}
	fmt.Printf("VIOLATION property=%s replay=%s\n", PropertyID, path)
	fmt.Printf("kind=%s run=%d\n%s\n", res.Violation.Kind, rp.Run, res.Violation.Detail)
	if res.Violation.Kind != rp.Kind {
		fmt.Printf("note: recorded kind was %s\n", rp.Kind)
	}
	if n > 1 {
		fmt.Printf("note: reproduced on execution %d of the same schedule (randomised Go map iteration inside an unprotected read)\n", n)
	}
	fmt.Println("event log:")
	for _, l := range res.Log {
		fmt.Println(" ", l)
	}
	return 1
}

func writeEvidence(cfg RunConfig, agg *aggregate, race raceOutcome, violations int, details []map[string]interface{}, wall, simWall float64) error {
	if cfg.Evidence == "" {
		return nil
	}
	st := agg.stats
	var samples []interface{}
	// samples arrive in completion order; emit them by run index
	for want := cfg.From; want < cfg.From+3; want++ {
		for _, s := range agg.samples {
			if s.Run == want {
				samples = append(samples, s)
			}
		}
	}
	if samples == nil {
		samples = []interface{}{}
	}
	perClients := map[string]int64{}
	for n := 2; n < len(agg.swarmSeen); n++ {
		perClients[strconv.Itoa(n)] = agg.swarmSeen[n]
	}
	cov := map[string]interface{}{
		"evaluations":         agg.runs,
		"distinct_nontrivial": len(agg.distinct),
		"rule": "Each evaluation is one history: a swarm configuration (2-6 clients, <=3 markets x <=4 exchanges, <=40 ops, op mix, maxAge, value classes, scheduler stickiness) " +
			"and all operation arguments are drawn from one PCG stream seeded by (seed, run index); the same stream then picks, at every step, which parked client goroutine is released " +
			"(steps = operation start, every H2 yield point, operation end). A history is NON-TRIVIAL when at least one operation was invoked while an operation of another client was still in flight " +
			"(measured from the event log: histories_with_overlap). DISTINCT = distinct FNV-1a hashes of (op kinds of every client, sequence of released client ids) among those histories, counted in a set. " +
			"stale/equal update counts are measured at invocation against the observed stored time; out_of_order = older than an earlier item of the same batch or of an in-flight update for the same cell; " +
			"cutoff-boundary = within 1ns of readTime-maxAge; grey_hits = equal-time update items + reads that returned while a requested market held an entry exactly at the cut-off.",
		"samples":                               samples,
		"histories_with_overlap":                agg.overlapNT,
		"runs_per_hour":                         float64(agg.runs) / simWall * 3600,
		"ops_total":                             st.Ops,
		"yields_total":                          st.Yields,
		"scheduling_steps_total":                st.Steps,
		"lock_contention_events":                st.LockContention,
		"interleavings_inside_critical_section": st.OverlapEvents,
		"interleavings_inside_critical_section_with_writer": st.OverlapWithWrite,
		"porcupine_ok":                 st.PorcupineOK,
		"porcupine_unknown":            st.PorcupineUnknown,
		"grey_hits":                    st.GreyEqualUpdates + st.GreyCutoffReads,
		"grey_equal_time_update_items": st.GreyEqualUpdates,
		"grey_cutoff_instant_reads":    st.GreyCutoffReads,
		"stale_updates":                st.StaleUpdates,
		"equal_updates":                st.EqualUpdates,
		"out_of_order_updates":         st.OutOfOrder,
		"cutoff_boundary_updates":      st.BoundaryUpdates,
		"cutoff_boundary_reads":        st.BoundaryReads,
		"overflow_pair_reads":          st.OverflowReads,
		"median_reference_checks":      st.MedianChecks,
		"served_prices":                st.ServedPrices,
		"absent_prices":                st.AbsentPrices,
		"server_path_updates":          st.ServerUpdates,
		"server_path_rejected":         st.ServerRejected,
		"server_validation_unexpected": st.ValidationOdd,
		"histories_per_client_count":   perClients,
		"multi_market_reads":           st.MultiMarketReads,
		"multi_market_updates":         st.MultiMarketUpds,
		"snapshot_windows":             st.SnapshotWindows,
		"snapshot_windows_note":        "multi_market_reads = reads requesting >= 2 markets; multi_market_updates = updates carrying items for >= 2 distinct markets; snapshot_windows = (read, update) pairs that were in flight at the same time where the update carries items for >= 2 of the markets the read requests, i.e. the situations in which a read that is not atomic over its markets can return a mix of two cache states (the sequential model evaluates all requested markets of a read against ONE state between completed updates)",
		"unannounced_lock_sleeps":      st.HiddenLockSleeps,
		"unannounced_lock_wakeups":     st.HiddenLockWakes,
		"unannounced_lock_note":        "a released client that takes a lock WITHOUT a yield point in front of it while a parked client holds that lock goes to sleep inside the real Lock call; the scheduler classifies it as asleep from a goroutine dump in which every client goroutine of the process is parked or asleep (never from elapsed time), keeps it in a blocked set, goes on with the other clients and takes it back at its next yield point after the holder unlocked. 0 on code whose every Lock has a yield point in front (the checked-in code)",
		"blocked_after_ms":             float64(BlockedAfter) / float64(time.Millisecond),
		"workers":                      cfg.Workers,
		"sim_wall_s":                   simWall,
		"race_subrun": map[string]interface{}{
			"ran": race.ran, "races": race.races, "workloads": race.runs, "repetitions_per_workload": race.repeat, "wall_s": race.wallS, "note": race.note,
			"label": "REAL-THREAD STRESS under the Go race detector (separate binary built with -race and WITHOUT the verif tag, i.e. the shipped code paths); this sub-run is NOT deterministic simulation and its silence is weaker evidence than the simulated histories",
		},
		"components": map[string]interface{}{
			"real": []string{
				"daemons/server/types/pricefeed.MarketToExchangePrices (NewMarketToExchangePrices, UpdatePrices, GetValidMedianPrices)",
				"daemons/server/types/pricefeed.ExchangeToPrice", "daemons/pricefeed/types.PriceTimestamp", "lib.Median",
				"daemons/server.Server.UpdateMarketPrices incl. validateMarketPricesUpdatesMessage (called as a method, no transport)",
				"sync.Mutex of the cache (never emulated; probed with TryLock only)", "Go goroutines (real, released one at a time)",
			},
			"stub": []string{
				"gRPC transport (method called directly)", "logger (cosmossdk.io/log nop logger)", "telemetry (disabled: the SDK wrappers return early)",
				"wall clock (never read by the checked code paths: read time and update times are inputs)",
				"Go runtime scheduler (replaced by the seeded scheduler through hook H2 yield points; untouched in the race sub-run)",
			},
		},
	}
	if len(details) > 0 {
		cov["violation_details"] = details
	}
	ev := map[string]interface{}{
		"property_id": PropertyID,
		"tier":        cfg.Tier,
		"seed":        cfg.Seed,
		"level":       "exploration",
		"wall_s":      wall,
		"violations":  violations,
		"assumptions": []string{
			"Interleavings are explored at the granularity of the H2 yield points (before each Lock, every loop iteration, between the two field writes of PriceTimestamp.UpdatePrice, at the check-then-act points); code between two yield points runs atomically in the simulation. Finer-grained races are only covered by the real-thread -race sub-run.",
			"Freshness follows DESIGN Appendix C: fresh iff updateTime >= readTime - maxAge; a future-dated price (updateTime > readTime) counts as fresh. The single instant updateTime == readTime - maxAge is grey (both accepted); the code includes it.",
			"An update whose time EQUALS the stored time is grey: the model accepts both 'kept' and 'overwritten' (the code keeps the old price). Equal times for one (market, exchange) are only generated in about a quarter of the runs.",
			"A writer entering its critical section while another operation is inside is reported as a violation (critical_section_overlap) even if the resulting history happens to be linearizable; reader/reader overlap is only counted.",
			"Server validation outcomes (zero price / missing time / empty batch rejected) are followed by the model (rejected => no state change) but a wrong validation verdict alone is only counted (server_validation_unexpected), since C20 does not state it.",
			"Timestamps stay within a few maxAge of 2023-11-14T22:13:20Z; extreme time.Time values (year 1, beyond int64 nanoseconds) are not generated.",
			"Every history, its results and its event log are a pure function of (seed, run index) as long as reads of the cache are atomic (verified: identical log hash over 30 processes with GOMAXPROCS 1/4/16). If a code change lets a reader interleave with a writer, the randomised iteration order of the Go map inside ExchangeToPrice.GetValidPrices (not controllable by the scheduler) can change a read result under the same schedule; minimisation and replay therefore re-execute a schedule up to 40 times until the recorded violation kind shows up.",
			"A read is modelled as ONE atomic step: all requested markets are evaluated against the same cache state, which must be a state between two completed updates (an update batch is one atomic step as well). A read that returns market A as of before an update and market B as of after it is therefore not linearizable.",
			"The wall clock is used in three places, none of which can produce or hide a violation: the watchdog (5 s without progress, counted in monitor ticks -> exit 2), the porcupine timeout (30 s -> 'unknown' count), and BlockedAfter (default 20 ms, env PRICESIM_BLOCKED_AFTER_MS): when a released client has been silent for that long the scheduler LOOKS at the goroutine states. A client is treated as asleep on a lock only on the evidence of a goroutine dump (world stopped, one instant) in which every simulated client goroutine of the process is parked or asleep in a wait, so that the holder of the lock cannot move without a scheduler decision; a slow goroutine or one queueing for a process-wide lock held by a running goroutine is never mistaken for it. The outcome of every release (reached a yield point / found asleep) is part of the trace (replay file field blocked_steps) and replay expects exactly that outcome.",
			"One client at a time holds for everything that passes yield points. The only real concurrency is between a client that has just unlocked and the sleeper it woke (each runs to its next yield point before the next scheduling decision is taken); on code that accesses shared state only under its locks the two cannot conflict.",
			"porcupine v1.3.0, github.com/petermattis/goid (goroutine id for the hook; cross-checked against runtime.Stack at start-up) and math/big are trusted; the cache's internal maps are observed through unsafe pointers only while every simulated goroutine is parked.",
		},
		"coverage": cov,
	}
	b, err := json.MarshalIndent(ev, "", " ")
	if err != nil {
		return err
	}
	if dir := filepath.Dir(cfg.Evidence); dir != "" {
		_ = os.MkdirAll(dir, 0o755)
	}
	return os.WriteFile(cfg.Evidence, append(b, '\n'), 0o644)
}
