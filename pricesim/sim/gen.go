package sim

import (
	"math"
	"math/rand/v2"
	"sort"
)

// Swarm holds the per-run variation knobs. Everything is drawn from the run's PRNG.
type Swarm struct {
	Clients     int     `json:"clients"`
	Markets     int     `json:"markets"`
	Exchanges   int     `json:"exchanges"`
	TotalOps    int     `json:"total_ops"`
	ReadFrac    float64 `json:"read_frac"`
	MaxAgeNs    int64   `json:"max_age_ns"`
	EqualTimes  bool    `json:"equal_times"`
	ServerFrac  float64 `json:"server_frac"`
	Stickiness  float64 `json:"stickiness"`
	Zones       bool    `json:"zones"`
	ValueWeight [5]int  `json:"value_weights"` // small, nearMax, around2^63, random, adjacent
	// SnapshotFocus (a quarter of the runs with >= 2 markets): most reads request ALL markets with
	// MinExchanges 1 and most updates carry one item list for EVERY market, so that a read which is
	// not atomic over its markets has many chances to return a mix of two cache states.
	SnapshotFocus bool `json:"snapshot_focus"`
}

const baseTimeNs = int64(1_700_000_000) * 1_000_000_000

// NewRNG returns the PRNG of run `run` under `seed`.
func NewRNG(seed uint64, run int64) *rand.Rand {
	return rand.New(rand.NewPCG(seed, uint64(run)*0x9E3779B97F4A7C15+0x632BE59BD9B4E019))
}

func pick[T any](r *rand.Rand, xs []T) T { return xs[r.IntN(len(xs))] }

type generator struct {
	r       *rand.Rand
	sw      Swarm
	markets []uint32
	exch    []string
	reads   []int64 // pool of read instants
	used    map[uint64]bool
	cellT   map[int][]int64 // times generated so far per cell (generation order)
	lastAdj uint64
}

// Generate draws the swarm configuration and the complete operation lists of one run.
func Generate(r *rand.Rand) (RunSpec, Swarm) {
	sw := Swarm{}
	sw.Clients = 2 + r.IntN(5)
	sw.Markets = pick(r, []int{1, 1, 2, 2, 3, 3})
	sw.Exchanges = pick(r, []int{1, 2, 3, 3, 4, 4, 4})
	sw.TotalOps = sw.Clients + r.IntN(40-sw.Clients+1)
	if sw.TotalOps < 6 {
		sw.TotalOps = 6
	}
	sw.ReadFrac = pick(r, []float64{0.2, 0.4, 0.5, 0.6, 0.8})
	sw.MaxAgeNs = pick(r, []int64{0, 1, 1, 2, 1000, 1_000_000_000, 30_000_000_000, 30_000_000_000, 3_600_000_000_000})
	sw.EqualTimes = r.IntN(4) == 0
	sw.ServerFrac = pick(r, []float64{0, 0.3, 0.3, 1})
	sw.Stickiness = pick(r, []float64{0, 0, 0.5, 0.85})
	sw.Zones = r.IntN(4) == 0
	for i := range sw.ValueWeight {
		sw.ValueWeight[i] = r.IntN(4)
	}
	if sw.ValueWeight == [5]int{} {
		sw.ValueWeight[3] = 1
	}
	sw.SnapshotFocus = r.IntN(4) == 0 && sw.Markets >= 2

	g := &generator{r: r, sw: sw, used: map[uint64]bool{}, cellT: map[int][]int64{}}
	// market ids
	switch r.IntN(3) {
	case 0:
		g.markets = []uint32{0, 1, 2}[:sw.Markets]
	case 1:
		g.markets = []uint32{7, 1000001, math.MaxUint32}[:sw.Markets]
	default:
		seen := map[uint32]bool{}
		for len(g.markets) < sw.Markets {
			m := r.Uint32()
			if !seen[m] {
				seen[m] = true
				g.markets = append(g.markets, m)
			}
		}
		sort.Slice(g.markets, func(i, j int) bool { return g.markets[i] < g.markets[j] })
	}
	g.exch = []string{"ex0", "ex1", "ex2", "ex3"}[:sw.Exchanges]

	// pool of read instants, spaced relative to maxAge so that prices age out between reads
	u := sw.MaxAgeNs
	if u < 4 {
		u = 4
	}
	nR := 1 + r.IntN(4)
	t := baseTimeNs + int64(r.IntN(1000))
	for i := 0; i < nR; i++ {
		g.reads = append(g.reads, t)
		t += pick(r, []int64{1, 2, u / 2, u, u + 1, 2*u + 1})
	}

	// distribute ops over clients
	counts := make([]int, sw.Clients)
	for i := range counts {
		counts[i] = 1
	}
	for i := sw.Clients; i < sw.TotalOps; i++ {
		counts[r.IntN(sw.Clients)]++
	}
	spec := RunSpec{MaxAgeNs: sw.MaxAgeNs, Clients: make([][]Op, sw.Clients)}
	for c := 0; c < sw.Clients; c++ {
		for k := 0; k < counts[c]; k++ {
			if r.Float64() < sw.ReadFrac {
				spec.Clients[c] = append(spec.Clients[c], g.genRead())
			} else {
				spec.Clients[c] = append(spec.Clients[c], g.genUpdate())
			}
		}
	}
	return spec, sw
}

func (g *generator) zone() int {
	if g.sw.Zones && g.r.IntN(2) == 0 {
		return pick(g.r, []int{-5 * 3600, 3600, 9*3600 + 1800})
	}
	return 0
}

func (g *generator) genRead() Op {
	r := g.r
	op := Op{Kind: OpRead}
	n := 1 + r.IntN(len(g.markets))
	perm := r.Perm(len(g.markets))
	focus := g.sw.SnapshotFocus && r.IntN(4) != 0
	if focus {
		n = len(g.markets)
	}
	for _, i := range perm[:n] {
		min := uint32(1 + r.IntN(4))
		if r.IntN(25) == 0 {
			min = 5
		}
		if focus {
			min = 1
		}
		op.Params = append(op.Params, ParamItem{Market: g.markets[i], Min: min})
	}
	rt := pick(r, g.reads)
	switch r.IntN(10) {
	case 0:
		rt += int64(r.IntN(3)) - 1
	case 1:
		rt += int64(r.IntN(7)) - 3
	}
	op.ReadTimeNs = rt
	op.ReadZoneS = g.zone()
	return op
}

func (g *generator) genTime(cellIdx int) int64 {
	r := g.r
	u := g.sw.MaxAgeNs
	if u < 4 {
		u = 4
	}
	prev := g.cellT[cellIdx]
	for attempt := 0; ; attempt++ {
		var t int64
		c := r.IntN(100)
		switch {
		case c < 32: // exactly at / around the cut-off of a pooled read instant
			t = pick(r, g.reads) - g.sw.MaxAgeNs + int64(r.IntN(3)) - 1
		case c < 45: // around a read instant itself (future-dated relative to some reads)
			t = pick(r, g.reads) + int64(r.IntN(3)) - 1
		case c < 75: // anywhere in the interesting window
			lo := g.reads[0] - 2*u - 3
			hi := g.reads[len(g.reads)-1] + u + 3
			t = lo + r.Int64N(hi-lo+1)
		case c < 85 && len(prev) > 0: // stale: older than something already generated for this cell
			t = pick(r, prev) - 1 - int64(r.IntN(3))*u/2
		case c < 93 && len(prev) > 0: // just newer than something generated
			t = pick(r, prev) + 1 + int64(r.IntN(2))
		case len(prev) > 0 && g.sw.EqualTimes: // equal to an earlier time of the same cell (GREY)
			t = pick(r, prev)
		default:
			t = g.reads[0] - u + r.Int64N(2*u+1)
		}
		if !g.sw.EqualTimes && attempt < 50 {
			dup := false
			for _, p := range prev {
				if p == t {
					dup = true
				}
			}
			if dup {
				continue
			}
		}
		if !g.sw.EqualTimes {
			// guarantee uniqueness per cell even after 50 failed attempts
			for {
				dup := false
				for _, p := range prev {
					if p == t {
						dup = true
					}
				}
				if !dup {
					break
				}
				t += 3
			}
		}
		g.cellT[cellIdx] = append(prev, t)
		return t
	}
}

func (g *generator) genPrice(allowZero bool) uint64 {
	r := g.r
	total := 0
	for _, w := range g.sw.ValueWeight {
		total += w
	}
	for {
		x := r.IntN(total)
		cls := 0
		for i, w := range g.sw.ValueWeight {
			if x < w {
				cls = i
				break
			}
			x -= w
		}
		var v uint64
		switch cls {
		case 0: // near zero
			v = uint64(r.IntN(12))
		case 1: // near MaxUint64
			v = math.MaxUint64 - uint64(r.IntN(12))
		case 2: // around 2^63: pairs whose sum overflows 64 bits
			v = (uint64(1) << 63) - 8 + uint64(r.IntN(2000))
			if r.IntN(3) == 0 {
				v = (uint64(1) << 63) + r.Uint64N(uint64(1)<<62)
			}
		case 3:
			v = r.Uint64()
		case 4: // adjacent to the previous value: sum odd -> rounding matters
			if g.lastAdj == 0 {
				g.lastAdj = r.Uint64()
			}
			v = g.lastAdj + uint64(r.IntN(4)) + 1
		}
		if v == 0 && !allowZero {
			continue
		}
		if g.used[v] {
			if cls == 0 || cls == 1 {
				// small classes may be exhausted: fall back to full range for this draw
				v = r.Uint64()
				if v == 0 || g.used[v] {
					continue
				}
			} else {
				continue
			}
		}
		g.used[v] = true
		g.lastAdj = v
		return v
	}
}

func (g *generator) genUpdate() Op {
	r := g.r
	op := Op{Kind: OpUpdate}
	op.ViaServer = r.Float64() < g.sw.ServerFrac
	if r.IntN(33) == 0 {
		return op // empty batch: no-op directly, rejected by the server validation
	}
	nMU := 1 + r.IntN(3)
	injectInvalid := op.ViaServer && r.IntN(8) == 0
	var all []int // SnapshotFocus: one item list for every market, in random order
	if g.sw.SnapshotFocus && r.IntN(4) != 0 {
		all = r.Perm(len(g.markets))
		nMU = len(all)
	}
	for i := 0; i < nMU; i++ {
		mu := MarketUpdate{Market: pick(r, g.markets)}
		nP := 1 + r.IntN(4)
		if r.IntN(20) == 0 {
			nP = 0
		}
		if all != nil {
			mu.Market = g.markets[all[i]]
			if nP == 0 {
				nP = 1
			}
		}
		for j := 0; j < nP; j++ {
			ex := pick(r, g.exch)
			ci := g.cellIndex(mu.Market, ex)
			it := PriceItem{Exchange: ex, TimeNs: g.genTime(ci), ZoneOffS: g.zone()}
			it.Price = g.genPrice(!op.ViaServer && r.IntN(10) == 0)
			mu.Prices = append(mu.Prices, it)
		}
		op.Batch = append(op.Batch, mu)
	}
	if injectInvalid {
		// make the server validation reject the whole batch
		var cands [][2]int
		for i, mu := range op.Batch {
			for j := range mu.Prices {
				cands = append(cands, [2]int{i, j})
			}
		}
		if len(cands) > 0 {
			c := pick(r, cands)
			it := &op.Batch[c[0]].Prices[c[1]]
			if r.IntN(2) == 0 && !g.used[0] {
				g.used[0] = true
				it.Price = 0
			} else {
				it.NilTime = true
			}
		}
	}
	return op
}

func (g *generator) cellIndex(m uint32, e string) int {
	mi, ei := 0, 0
	for i, v := range g.markets {
		if v == m {
			mi = i
		}
	}
	for i, v := range g.exch {
		if v == e {
			ei = i
		}
	}
	return mi*4 + ei
}
