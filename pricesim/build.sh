#!/usr/bin/env bash
# Builds bin/pricesim (tags verif: simulator with scheduler hook H2) and bin/pricesim-race
# (-race, WITHOUT the verif tag: real-thread stress on the shipped code paths) against a
# given checkout of the layer repository.
#
#   ./build.sh [repo_path]        (default: $PRICESIM_REPO, else /repo)
#
# go.mod of this module is never modified: a temporary copy with the replace directive pointing
# at repo_path is generated outside /verif and used through -modfile.
set -euo pipefail
here="$(cd "$(dirname "${BASH_SOURCE[0]}")" && pwd)"
repo="${1:-${PRICESIM_REPO:-/repo}}"
repo="$(cd "$repo" && pwd)"
out="${PRICESIM_BIN:-$here/bin}"
export GOFLAGS=-mod=mod GOPROXY=off GOSUMDB=off GOTOOLCHAIN=local
tmp="$(mktemp -d /tmp/ps_build.XXXXXX)"
trap 'rm -rf "$tmp"' EXIT
sed "s#^replace github.com/tellor-io/layer => .*#replace github.com/tellor-io/layer => $repo#" "$here/go.mod" > "$tmp/go.mod"
cp "$here/go.sum" "$tmp/go.sum"
mkdir -p "$out"
cd "$here"
go build -modfile="$tmp/go.mod" -tags verif -o "$out/pricesim" ./cmd/pricesim
if go build -modfile="$tmp/go.mod" -race -o "$out/pricesim-race" ./cmd/pricesim 2>"$tmp/race.err"; then
  :
else
  echo "build.sh: WARNING: -race build failed; the race sub-run will be skipped:" >&2
  cat "$tmp/race.err" >&2
  rm -f "$out/pricesim-race"
fi
echo "built $out/pricesim (repo=$repo)"
