// pricesim: deterministic simulator with seeded scheduling for the price cache (property C20).
//
//	pricesim run    --tier quick|thorough --seed <int> --evidence <path> --replays <dir> [--budget <seconds>] [--workers N] [--runs N] [--loghash] [--no-race] [--blocked-after-ms F]
//	pricesim replay <file> [--repeat N] [--blocked-after-ms F]
//	pricesim stress --seed <int> --budget <seconds> [--runs N] [--repeat N]      (race binary: free-running goroutines)
//	pricesim stressfile <file> [--repeat N]                                      (race binary)
//
// exit 0: property held on everything explored; 1: violation (stdout line "VIOLATION property=C20 replay=<path>");
// 2: build/internal trouble, watchdog or inconclusive.
//
// Scheduling: client goroutines run the REAL cache code and are released one at a time; a released
// client comes back at its next yield point (lib/simhook, build tag verif) or at the end of its
// operation. If the code under test takes a lock at a place that has NO yield point in front of it
// while a parked client holds that lock, the released client goes to sleep inside the real Lock
// call. The scheduler notices this (after --blocked-after-ms of silence it looks at the goroutine
// states; the classification itself is taken from a goroutine dump in which every client goroutine
// of the process is parked or asleep, never from the elapsed time: sim/gstate.go), keeps the
// client in a blocked set and goes on with the other clients; the sleeper continues by itself when
// the holder unlocks and re-enters the scheduler at its next yield point. The outcome of every
// release is part of the trace (replay file: "schedule" = released client ids, "blocked_steps" =
// steps at which the released client was found asleep on such a lock) and replay expects exactly
// that outcome. The watchdog (exit 2) is left for genuine simulator dead-locks; a dead-lock of the
// code under test itself (every client asleep on a lock or waiting at its Lock point) is a
// violation of kind "deadlock".
//
// Environment: PRICESIM_BLOCKED_AFTER_MS (default 20), PRICESIM_BLOCKED_CONFIRM_MS (default 2: first look
// when the replayed trace expects a sleeper), PRICESIM_DISABLE_ORACLES (sensitivity self-tests only),
// PRICESIM_DEBUG_SCHED (print the goroutine states behind every sleeper classification).
package main

import (
	"flag"
	"fmt"
	"os"
	"runtime/pprof"
	"strconv"
	"time"

	"pricesim/sim"
)

func parseSeed(s string) (uint64, error) {
	if v, err := strconv.ParseUint(s, 10, 64); err == nil {
		return v, nil
	}
	v, err := strconv.ParseInt(s, 10, 64)
	return uint64(v), err
}

func main() {
	if len(os.Args) < 2 {
		usage()
	}
	switch os.Args[1] {
	case "run":
		os.Exit(cmdRun(os.Args[2:]))
	case "replay":
		os.Exit(cmdReplay(os.Args[2:]))
	case "stress":
		os.Exit(cmdStress(os.Args[2:]))
	case "stressfile":
		os.Exit(cmdStressFile(os.Args[2:]))
	default:
		usage()
	}
}

func usage() {
	fmt.Fprintln(os.Stderr, "usage: pricesim run --tier quick|thorough --seed <int> --evidence <path> --replays <dir> [--budget <seconds>] [--workers N] [--runs N] [--loghash] [--no-race]\n       pricesim replay <file>")
	os.Exit(2)
}

func cmdRun(args []string) int {
	fs := flag.NewFlagSet("run", flag.ContinueOnError)
	tier := fs.String("tier", "quick", "quick | thorough")
	seedS := fs.String("seed", "", "seed (default: env VERIF_SEED, else 1)")
	evidence := fs.String("evidence", "", "evidence JSON path")
	replays := fs.String("replays", "", "directory for replay files")
	budget := fs.Float64("budget", 0, "wall budget in seconds (default quick 60, thorough 1500)")
	workers := fs.Int("workers", 0, "parallel independent runs (default: number of CPUs)")
	runs := fs.Int64("runs", 0, "execute exactly N histories instead of using the time budget")
	from := fs.Int64("from", 0, "first run index (debugging aid)")
	loghash := fs.Bool("loghash", false, "print a hash of the complete event log")
	norace := fs.Bool("no-race", false, "skip the real-thread -race stress sub-run")
	racebin := fs.String("race-bin", "", "path of the -race stress binary (default: pricesim-race next to this binary)")
	blockedAfter := fs.Float64("blocked-after-ms", 0, "silence of a released client after which the scheduler looks at the goroutine states (default 20, env PRICESIM_BLOCKED_AFTER_MS)")
	if err := fs.Parse(args); err != nil {
		return 2
	}
	sim.SetBlockedAfter(time.Duration(*blockedAfter * float64(time.Millisecond)))
	if *tier != "quick" && *tier != "thorough" {
		fmt.Fprintln(os.Stderr, "pricesim: --tier must be quick or thorough")
		return 2
	}
	ss := *seedS
	if ss == "" {
		ss = os.Getenv("VERIF_SEED")
	}
	if ss == "" {
		ss = "1"
	}
	seed, err := parseSeed(ss)
	if err != nil {
		fmt.Fprintln(os.Stderr, "pricesim: bad seed:", err)
		return 2
	}
	if *replays == "" {
		*replays = "."
	}
	sim.InstallHook()
	if pf := os.Getenv("PRICESIM_CPUPROFILE"); pf != "" {
		if f, err := os.Create(pf); err == nil {
			_ = pprof.StartCPUProfile(f)
			defer pprof.StopCPUProfile()
		}
	}
	return sim.RunTier(sim.RunConfig{Tier: *tier, Seed: seed, Evidence: *evidence, Replays: *replays,
		Budget: time.Duration(*budget * float64(time.Second)), Workers: *workers, MaxRuns: *runs, From: *from, LogHash: *loghash,
		NoRace: *norace, RaceBin: *racebin})
}

func cmdReplay(args []string) int {
	fs := flag.NewFlagSet("replay", flag.ContinueOnError)
	repeat := fs.Int("repeat", 3000, "repetitions for a race-mode replay file")
	racebin := fs.String("race-bin", "", "path of the -race stress binary")
	blockedAfter := fs.Float64("blocked-after-ms", 0, "silence of a released client after which the scheduler looks at the goroutine states (default 20)")
	var file string
	if len(args) > 0 && len(args[0]) > 0 && args[0][0] != '-' {
		file, args = args[0], args[1:]
	}
	if err := fs.Parse(args); err != nil {
		return 2
	}
	sim.SetBlockedAfter(time.Duration(*blockedAfter * float64(time.Millisecond)))
	if file == "" && fs.NArg() > 0 {
		file = fs.Arg(0)
	}
	if file == "" {
		usage()
	}
	sim.InstallHook()
	return sim.ReplayFile(file, *racebin, *repeat)
}

func cmdStress(args []string) int {
	fs := flag.NewFlagSet("stress", flag.ContinueOnError)
	seedS := fs.String("seed", "1", "seed")
	budget := fs.Float64("budget", 30, "seconds")
	runs := fs.Int64("runs", 0, "max workloads")
	repeat := fs.Int("repeat", 20, "repetitions per workload")
	if err := fs.Parse(args); err != nil {
		return 2
	}
	seed, err := parseSeed(*seedS)
	if err != nil {
		return 2
	}
	sim.StressLoop(seed, time.Duration(*budget*float64(time.Second)), *runs, *repeat)
	return 0
}

func cmdStressFile(args []string) int {
	fs := flag.NewFlagSet("stressfile", flag.ContinueOnError)
	repeat := fs.Int("repeat", 3000, "repetitions")
	var file string
	if len(args) > 0 && len(args[0]) > 0 && args[0][0] != '-' {
		file, args = args[0], args[1:]
	}
	if err := fs.Parse(args); err != nil {
		return 2
	}
	if file == "" {
		usage()
	}
	rp, err := sim.ReadReplay(file)
	if err != nil {
		fmt.Fprintln(os.Stderr, "pricesim:", err)
		return 2
	}
	fmt.Printf("RUN %d\n", rp.Run)
	p := sim.StressOnce(rp.Spec, *repeat)
	fmt.Printf("STRESS_DONE runs=1 repeat=%d panics=%d\n", *repeat, p)
	return 0
}
