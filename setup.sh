#!/bin/bash
# Build the framework offline from files on disk (warms the Go build cache for the checks).
set -e
export GOFLAGS=-mod=mod GOPROXY=off GOSUMDB=off GOTOOLCHAIN=local CGO_ENABLED=1
cd /verif/sim && mkdir -p /verif/bin && go build -tags verif -o /verif/bin/layersim ./cmd/layersim
if [ -x /verif/pricesim/build.sh ]; then ( cd /verif/pricesim && ./build.sh /repo ); fi
echo setup ok
